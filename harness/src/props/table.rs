//! C08 (routing table shape and trades) and C09 (closest-node enumeration) on the real
//! RoutingTable / Bucket / Node (engine E2).

use crate::common::*;
use crate::space::{self, Step};
use btdht::verif::{clock, leading_bit_count, Bucket, Node, NodeHandle, NodeStatus, RoutingTable};
use btdht::InfoHash;
use serde_json::{json, Value};
use std::collections::{BTreeMap, BTreeSet, HashSet};
use std::net::{Ipv4Addr, SocketAddr, SocketAddrV4};
use std::time::Duration;

const T0_MS: u64 = 10_800_000;

fn set_clock(ms: u64) {
    clock::set(Some(Duration::from_millis(ms)));
}

pub fn flip_bit(id: InfoHash, index: usize) -> InfoHash {
    let mut b: [u8; 20] = id.into();
    b[index / 8] ^= 1 << (7 - index % 8);
    b.into()
}

/// Member `j` of prefix class `c` relative to `local`: shares exactly `c` leading bits with it.
/// Members differ in the low bits where there is room and always in the address.
pub fn member(local: InfoHash, c: usize, j: usize) -> NodeHandle {
    let mut id = flip_bit(local, c);
    // vary free bits (positions > c) with j, from the tail
    let free = 159 - c;
    let mut b: [u8; 20] = id.into();
    for k in 0..free.min(8) {
        if (j >> k) & 1 == 1 {
            let pos = 159 - k;
            b[pos / 8] ^= 1 << (7 - pos % 8);
        }
    }
    id = b.into();
    let addr = SocketAddr::V4(SocketAddrV4::new(
        Ipv4Addr::new(10, (c % 250) as u8 + 1, j as u8 + 1, 7),
        6881,
    ));
    NodeHandle::new(id, addr)
}

type Live = BTreeMap<([u8; 20], SocketAddr), (usize, NodeStatus)>;

/// All live nodes: (id, addr) -> (bucket index, status). Err on a duplicate pair.
fn live_nodes(t: &RoutingTable) -> Result<Live, String> {
    let mut m = Live::new();
    for (bi, b) in t.buckets().enumerate() {
        let mut n_in_bucket = 0;
        for n in b.iter() {
            n_in_bucket += 1;
            let st = n.status();
            if st != NodeStatus::Bad {
                if m.insert((n.id().into(), n.addr()), (bi, st)).is_some() {
                    return Err(format!("pair ({:?},{}) appears twice", n.id(), n.addr()));
                }
            }
        }
        if n_in_bucket > 8 {
            return Err(format!("bucket {bi} holds {n_in_bucket} nodes"));
        }
    }
    Ok(m)
}

fn bucket_has_room(b: &Bucket) -> bool {
    b.iter().any(|n| n.status() == NodeStatus::Bad)
}

fn bucket_index_for(t: &RoutingTable, id: InfoHash) -> usize {
    let lbc = leading_bit_count(t.node_id(), id);
    let nb = t.buckets().count();
    lbc.min(nb - 1)
}

/// Shape invariants of C08, evaluated in every state.
pub fn shape_invariants(t: &RoutingTable) -> Result<(), (String, String)> {
    let live = live_nodes(t).map_err(|e| ("duplicate-or-oversize".to_string(), e))?;
    let local = t.node_id();
    let nb = t.buckets().count();
    if nb == 0 || nb > 160 {
        return Err(("bucket-count".into(), format!("{nb} buckets")));
    }
    for ((id, addr), (bi, _)) in &live {
        let idh = InfoHash::from(*id);
        if idh == local {
            return Err(("own-id-listed".into(), format!("own id listed at {addr}")));
        }
        if t.routers.contains(addr) {
            return Err(("router-listed".into(), format!("router address {addr} listed")));
        }
        let lbc = leading_bit_count(local, idh);
        let ok = if *bi < nb - 1 { lbc == *bi } else { lbc >= *bi };
        if !ok {
            return Err((
                "misplaced-node".into(),
                format!("node sharing {lbc} bits sits in bucket {bi} of {nb}"),
            ));
        }
    }
    Ok(())
}

/// Transition oracle for offering `node` (as the table API is used by the handler: add_node).
pub fn offer_oracle(
    pre: &RoutingTable,
    post: &RoutingTable,
    offered: &NodeHandle,
    offered_status: NodeStatus,
) -> Result<u8, (String, String)> {
    let pre_live = live_nodes(pre).map_err(|e| ("duplicate-or-oversize".to_string(), e))?;
    let post_live = live_nodes(post).map_err(|e| ("duplicate-or-oversize".to_string(), e))?;
    let key = (<[u8; 20]>::from(offered.id), offered.addr);
    let local = pre.node_id();
    let pre_nb = pre.buckets().count();
    let post_nb = post.buckets().count();
    // nobody but the offered node may appear
    for k in post_live.keys() {
        if !pre_live.contains_key(k) && *k != key {
            return Err(("node-appeared-from-nowhere".into(), format!("{:?}", k.1)));
        }
    }
    let lost: Vec<_> = pre_live.iter().filter(|(k, _)| !post_live.contains_key(*k) && **k != key).collect();
    if lost.len() > 1 {
        return Err((
            "offer-removes-more-than-one".into(),
            format!("offering {} ({:?}) removed {} live nodes", offered.addr, offered_status, lost.len()),
        ));
    }
    let admissible = offered_status != NodeStatus::Bad && offered.id != local && !pre.routers.contains(&offered.addr);
    if let Some((vk, (_, vstatus))) = lost.first() {
        if !admissible {
            return Err(("inadmissible-offer-removes-node".into(), format!("offer of {} removed {}", offered.addr, vk.1)));
        }
        if *vstatus >= offered_status {
            return Err((
                "victim-of-equal-or-better-standing".into(),
                format!("{:?} newcomer {} replaced {:?} node {}", offered_status, offered.addr, vstatus, vk.1),
            ));
        }
        // the victim's bucket (where it would sit now) must have no free or bad slot
        let vb = bucket_index_for(post, InfoHash::from(vk.0));
        let bucket = post.buckets().nth(vb).unwrap();
        if bucket_has_room(bucket) {
            return Err((
                "live-node-lost-while-bucket-has-room".into(),
                format!(
                    "{:?} newcomer {} removed {:?} node {} although bucket {} of {} still has a free or bad slot",
                    offered_status, offered.addr, vstatus, vk.1, vb, post_nb
                ),
            ));
        }
    }
    // repeated offer of a known live node: stays, never downgraded
    if let Some((_, st)) = pre_live.get(&key) {
        match post_live.get(&key) {
            None => return Err(("known-node-lost-by-repeat".into(), format!("{} vanished when offered again", offered.addr))),
            Some((_, st2)) if st2 < st => return Err(("known-node-downgraded".into(), format!("{} went {:?} -> {:?}", offered.addr, st, st2))),
            _ => {}
        }
    }
    if !admissible {
        if post_live.contains_key(&key) && !pre_live.contains_key(&key) {
            return Err(("inadmissible-node-admitted".into(), format!("{} ({:?}) admitted", offered.addr, offered_status)));
        }
        if post_nb != pre_nb {
            return Err(("inadmissible-offer-splits".into(), format!("{} -> {} buckets", pre_nb, post_nb)));
        }
        return Ok(4);
    }
    // splitting only the bucket that covers the local id
    if post_nb != pre_nb {
        if post_nb < pre_nb {
            return Err(("bucket-count-shrinks".into(), format!("{} -> {}", pre_nb, post_nb)));
        }
        let pre_bi = bucket_index_for(pre, offered.id);
        if pre_bi != pre_nb - 1 {
            return Err(("split-of-a-bucket-not-covering-local-id".into(), format!("offer for bucket {pre_bi} changed bucket count {pre_nb} -> {post_nb}")));
        }
    }
    if post_live.contains_key(&key) {
        return Ok(if lost.is_empty() { 1 } else { 2 });
    }
    // rejected: its bucket must be full of nodes of equal or better standing and not splittable
    let bi = bucket_index_for(post, offered.id);
    let bucket = post.buckets().nth(bi).unwrap();
    let worst = bucket.iter().map(|n| n.status()).min().unwrap();
    if worst < offered_status {
        return Err((
            "offer-rejected-although-room-or-worse-node".into(),
            format!("{:?} newcomer {} rejected while bucket {} holds a {:?} slot", offered_status, offered.addr, bi, worst),
        ));
    }
    if bi == post_nb - 1 && post_nb < 160 {
        return Err((
            "offer-rejected-without-splitting-last-bucket".into(),
            format!("{:?} newcomer {} rejected by the splittable last bucket {}", offered_status, offered.addr, bi),
        ));
    }
    Ok(3)
}

// ---------------------------------------------------------------------------------------------
// Bucket level, exhaustive

fn bucket_pattern_sweep(rep: &mut Report) {
    // slot classes: 0 = bad (purged node), 1 = questionable, 2 = good; prefix length k of filled
    // slots followed by 8-k never-used slots.
    let local = InfoHash::from([0u8; 20]);
    let mut transitions = 0u64;
    let mut patterns = 0u64;
    let mut outcomes = [0u64; 5];
    let mut seen_viol: BTreeSet<String> = BTreeSet::new();
    let mut outcome_sigs: HashSet<u64> = HashSet::new();
    for k in 0..=8usize {
        for code in 0..3usize.pow(k as u32) {
            let pat: Vec<usize> = (0..k).map(|i| (code / 3usize.pow(i as u32)) % 3).collect();
            patterns += 1;
            // build through the API
            set_clock(T0_MS);
            let mut t = RoutingTable::new(local);
            let members: Vec<NodeHandle> = (0..10).map(|j| member(local, 0, j)).collect();
            for j in 0..k {
                t.add_node(Node::as_good(members[j].id, members[j].addr));
            }
            let now = T0_MS + 901_000;
            set_clock(now);
            for (j, class) in pat.iter().enumerate() {
                match class {
                    0 => {
                        for _ in 0..2 {
                            if let Some(n) = t.find_node_mut(&members[j]) {
                                n.local_request();
                            }
                        }
                    }
                    2 => t.add_node(Node::as_good(members[j].id, members[j].addr)),
                    _ => {}
                }
            }
            // sanity: the pattern was realised slot by slot
            let got: Vec<usize> = t.buckets().next().unwrap().iter().take(k).map(|n| n.status() as usize).collect();
            if got != pat {
                // Building itself already lost nodes (e.g. re-answer displaced a neighbour): judge
                // it with the transition oracle below instead of trusting the pattern.
            }
            let mut offers: Vec<(NodeHandle, NodeStatus, String)> = vec![
                (members[8], NodeStatus::Good, "new-good".into()),
                (members[9], NodeStatus::Questionable, "new-questionable".into()),
                (members[8], NodeStatus::Bad, "new-bad".into()),
            ];
            for j in 0..k {
                offers.push((members[j], NodeStatus::Good, format!("slot{j}-again-good")));
                offers.push((members[j], NodeStatus::Questionable, format!("slot{j}-again-questionable")));
            }
            for (h, st, label) in offers {
                let pre = t.clone();
                let mut post = t.clone();
                let node = match st {
                    NodeStatus::Good => Node::as_good(h.id, h.addr),
                    NodeStatus::Questionable => Node::as_questionable(h.id, h.addr),
                    NodeStatus::Bad => Node::as_bad(h.id, h.addr),
                };
                post.add_node(node);
                transitions += 1;
                let verdict = shape_invariants(&post).and_then(|_| offer_oracle(&pre, &post, &h, st));
                match verdict {
                    Ok(c) => {
                        outcomes[c as usize] += 1;
                        outcome_sigs.insert(key128(&[code as u64, k as u64, hash64(label.as_bytes()), c as u64]) as u64);
                    }
                    Err((sig, what)) => {
                        outcomes[0] += 1;
                        if seen_viol.insert(sig.clone()) {
                            rep.violation(
                                format!("bucket {sig}"),
                                format!("pattern {:?} + {label}: {what}", pat),
                                json!({"engine":"E2","check":"C08","part":"bucket","pattern":pat,"offer":label}),
                            );
                        }
                    }
                }
            }
        }
    }
    rep.add("states", patterns);
    rep.add("transitions", transitions);
    rep.set("bucket_patterns", patterns);
    rep.set("bucket_offer_transitions", transitions);
    rep.set("bucket_outcomes", json!({"violating": outcomes[0], "admitted_free": outcomes[1], "admitted_by_trade": outcomes[2], "rejected": outcomes[3], "inadmissible_ignored": outcomes[4]}));
    rep.sample(json!({"engine":"E2","part":"bucket","pattern":[1,2,0,1],"offer":"new-good"}));
}

pub fn replay_bucket(v: &Value) -> i32 {
    let local = InfoHash::from([0u8; 20]);
    let pat: Vec<usize> = v["pattern"].as_array().map(|a| a.iter().map(|x| x.as_u64().unwrap() as usize).collect()).unwrap_or_default();
    let label = v["offer"].as_str().unwrap_or("new-good").to_string();
    set_clock(T0_MS);
    let mut t = RoutingTable::new(local);
    let members: Vec<NodeHandle> = (0..10).map(|j| member(local, 0, j)).collect();
    for j in 0..pat.len() {
        t.add_node(Node::as_good(members[j].id, members[j].addr));
    }
    set_clock(T0_MS + 901_000);
    for (j, class) in pat.iter().enumerate() {
        match class {
            0 => {
                for _ in 0..2 {
                    if let Some(n) = t.find_node_mut(&members[j]) {
                        n.local_request();
                    }
                }
            }
            2 => t.add_node(Node::as_good(members[j].id, members[j].addr)),
            _ => {}
        }
    }
    let dump = |t: &RoutingTable| -> Vec<String> {
        t.buckets().next().unwrap().iter().map(|n| format!("{}:{:?}", n.addr(), n.status())).collect()
    };
    println!("before: {:?}", dump(&t));
    let (h, st) = if label == "new-good" {
        (members[8], NodeStatus::Good)
    } else if label == "new-questionable" {
        (members[9], NodeStatus::Questionable)
    } else if label == "new-bad" {
        (members[8], NodeStatus::Bad)
    } else {
        let j: usize = label.trim_start_matches("slot").split('-').next().unwrap().parse().unwrap();
        (members[j], if label.ends_with("good") { NodeStatus::Good } else { NodeStatus::Questionable })
    };
    let pre = t.clone();
    t.add_node(match st {
        NodeStatus::Good => Node::as_good(h.id, h.addr),
        NodeStatus::Questionable => Node::as_questionable(h.id, h.addr),
        NodeStatus::Bad => Node::as_bad(h.id, h.addr),
    });
    println!("offer {label} ({} {:?})", h.addr, st);
    println!("after:  {:?}", dump(&t));
    match shape_invariants(&t).and_then(|_| offer_oracle(&pre, &t, &h, st)) {
        Ok(_) => 0,
        Err((sig, what)) => {
            println!("VIOLATION {sig}: {what}");
            1
        }
    }
}

// ---------------------------------------------------------------------------------------------
// Table level

#[derive(Clone)]
pub struct St {
    pub table: RoutingTable,
    pub now: u64,
}

#[derive(Clone, Debug, PartialEq)]
pub enum Ev {
    OfferGood(usize, usize),
    OfferHearsay(usize, usize),
    LocalRequest(usize, usize),
    RemoteRequest(usize, usize),
    OfferOwnId,
    OfferRouter,
    /// member (c, j) answers and its answer names a router address, the own id and one ordinary node
    AnswerNamingRouter(usize, usize),
    /// a good node on a router's IP address but another port is offered (it is not a router)
    OfferRouterNeighbour,
    /// member (c, j) answers and names 9 nodes: 8 inadmissible ones (router address) and then member (c, 11)
    AnswerNamingMany(usize, usize),
    Advance(u64),
}

pub fn ev_json(e: &Ev) -> Value {
    match e {
        Ev::OfferGood(c, j) => json!({"ev":"OfferGood","c":c,"j":j}),
        Ev::OfferHearsay(c, j) => json!({"ev":"OfferHearsay","c":c,"j":j}),
        Ev::LocalRequest(c, j) => json!({"ev":"LocalRequest","c":c,"j":j}),
        Ev::RemoteRequest(c, j) => json!({"ev":"RemoteRequest","c":c,"j":j}),
        Ev::AnswerNamingRouter(c, j) => json!({"ev":"AnswerNamingRouter","c":c,"j":j}),
        Ev::OfferRouterNeighbour => json!({"ev":"OfferRouterNeighbour"}),
        Ev::AnswerNamingMany(c, j) => json!({"ev":"AnswerNamingMany","c":c,"j":j}),
        Ev::OfferOwnId => json!({"ev":"OfferOwnId"}),
        Ev::OfferRouter => json!({"ev":"OfferRouter"}),
        Ev::Advance(ms) => json!({"ev":"Advance","ms":ms}),
    }
}
pub fn ev_parse(v: &Value) -> Ev {
    let c = v["c"].as_u64().unwrap_or(0) as usize;
    let j = v["j"].as_u64().unwrap_or(0) as usize;
    match v["ev"].as_str().unwrap_or("") {
        "OfferGood" => Ev::OfferGood(c, j),
        "OfferHearsay" => Ev::OfferHearsay(c, j),
        "LocalRequest" => Ev::LocalRequest(c, j),
        "RemoteRequest" => Ev::RemoteRequest(c, j),
        "AnswerNamingRouter" => Ev::AnswerNamingRouter(c, j),
        "OfferRouterNeighbour" => Ev::OfferRouterNeighbour,
        "AnswerNamingMany" => Ev::AnswerNamingMany(c, j),
        "OfferOwnId" => Ev::OfferOwnId,
        "OfferRouter" => Ev::OfferRouter,
        _ => Ev::Advance(v["ms"].as_u64().unwrap_or(0)),
    }
}

pub fn router_addr() -> SocketAddr {
    "10.250.0.1:6881".parse().unwrap()
}
/// A node that shares the router's IP address but not its port.
pub fn router_neighbour(local: InfoHash) -> NodeHandle {
    NodeHandle::new(member(local, 0, 76).id, "10.250.0.1:7000".parse().unwrap())
}

pub struct Ctx {
    pub local: InfoHash,
    pub check_c09: bool,
    pub check_c08: bool,
}

pub fn table_key(s: &St) -> u128 {
    set_clock(s.now);
    let mut f: Vec<u64> = Vec::with_capacity(64);
    f.push(s.table.buckets().count() as u64);
    for b in s.table.buckets() {
        for n in b.iter() {
            let (rq, rs, lr, c) = n.verif_snapshot();
            if rs.is_none() {
                f.push(0);
                continue;
            }
            let id: [u8; 20] = n.id().into();
            f.push(1 + hash64(&id));
            f.push(addr_hash(&n.addr()));
            let sat = |d: Option<Duration>, m: u64| d.map_or(m + 1, |d| (d.as_millis() as u64).min(m));
            f.push(sat(rq, 900_000));
            f.push(sat(rs, 900_000));
            f.push(sat(lr, 30_000));
            f.push((c as u64).min(2));
        }
    }
    key128(&f)
}

impl Ctx {
    pub fn apply(&self, s: &St, e: &Ev) -> St {
        let mut n = s.clone();
        set_clock(n.now);
        match *e {
            Ev::OfferGood(c, j) => {
                let h = member(self.local, c, j);
                n.table.add_node(Node::as_good(h.id, h.addr));
            }
            Ev::OfferHearsay(c, j) => {
                let h = member(self.local, c, j);
                n.table.add_node(Node::as_questionable(h.id, h.addr));
            }
            Ev::LocalRequest(c, j) => {
                let h = member(self.local, c, j);
                if let Some(node) = n.table.find_node_mut(&h) {
                    node.local_request();
                }
            }
            Ev::RemoteRequest(c, j) => {
                let h = member(self.local, c, j);
                if let Some(node) = n.table.find_node_mut(&h) {
                    node.remote_request();
                }
            }
            Ev::AnswerNamingRouter(c, j) => {
                let h = member(self.local, c, j);
                let named = [
                    NodeHandle::new(member(self.local, 1, 78).id, router_addr()),
                    NodeHandle::new(self.local, "10.9.9.8:2".parse().unwrap()),
                ];
                n.table.add_nodes(Node::as_good(h.id, h.addr), &named);
            }
            Ev::OfferRouterNeighbour => {
                let h = router_neighbour(self.local);
                n.table.add_node(Node::as_good(h.id, h.addr));
            }
            Ev::AnswerNamingMany(c, j) => {
                let h = member(self.local, c, j);
                let mut named: Vec<NodeHandle> = (0..8).map(|k| NodeHandle::new(member(self.local, 1, 60 + k).id, router_addr())).collect();
                named.push(member(self.local, c, 11));
                n.table.add_nodes(Node::as_good(h.id, h.addr), &named);
            }
            Ev::OfferOwnId => {
                n.table.add_node(Node::as_good(self.local, "10.9.9.9:1".parse().unwrap()));
            }
            Ev::OfferRouter => {
                let h = member(self.local, 1, 77);
                n.table.add_node(Node::as_good(h.id, router_addr()));
            }
            Ev::Advance(ms) => n.now += ms,
        }
        n
    }

    fn step(&self, s: &St, e: &Ev) -> Step<St> {
        let n = self.apply(s, e);
        set_clock(n.now);
        let mut class = 0u8;
        if self.check_c08 {
            if let Ev::AnswerNamingMany(c, j) = *e {
                // two offers in one call: the answering node, then the only admissible name (9th in the list)
                if let Err((signature, what)) = shape_invariants(&n.table) {
                    return Step::Violation { signature, what };
                }
                let h = member(self.local, c, j);
                let mut mid = s.clone();
                mid.table.add_node(Node::as_good(h.id, h.addr));
                if let Err((signature, what)) = offer_oracle(&s.table, &mid.table, &h, NodeStatus::Good) {
                    return Step::Violation { signature, what };
                }
                return match offer_oracle(&mid.table, &n.table, &member(self.local, c, 11), NodeStatus::Questionable) {
                    Ok(c) => Step::Next(n, c),
                    Err((signature, what)) => Step::Violation { signature: format!("{signature} hearsay-at-position-9"), what },
                };
            }
            if let Err((signature, what)) = shape_invariants(&n.table) {
                return Step::Violation { signature, what };
            }
            let offered = match *e {
                Ev::OfferGood(c, j) => Some((member(self.local, c, j), NodeStatus::Good)),
                Ev::OfferHearsay(c, j) => Some((member(self.local, c, j), NodeStatus::Questionable)),
                // the named router / own id are inadmissible: judged as the offer of the answering node alone
                Ev::AnswerNamingRouter(c, j) => Some((member(self.local, c, j), NodeStatus::Good)),
                Ev::OfferRouterNeighbour => Some((router_neighbour(self.local), NodeStatus::Good)),
                Ev::OfferOwnId => Some((NodeHandle::new(self.local, "10.9.9.9:1".parse().unwrap()), NodeStatus::Good)),
                Ev::OfferRouter => Some((NodeHandle::new(member(self.local, 1, 77).id, router_addr()), NodeStatus::Good)),
                _ => None,
            };
            match offered {
                Some((h, st)) => match offer_oracle(&s.table, &n.table, &h, st) {
                    Ok(c) => class = c,
                    Err((signature, what)) => return Step::Violation { signature, what },
                },
                None => {
                    // status events and time never add nodes or change the bucket layout
                    set_clock(s.now);
                    let pre = live_nodes(&s.table);
                    set_clock(n.now);
                    let post = live_nodes(&n.table);
                    if let (Ok(pre), Ok(post)) = (pre, post) {
                        if post.keys().any(|k| !pre.contains_key(k)) {
                            return Step::Violation { signature: "node-appeared-from-nowhere".into(), what: format!("after {:?}", e) };
                        }
                    }
                    if s.table.buckets().count() != n.table.buckets().count() {
                        return Step::Violation { signature: "bucket-count-changed-without-offer".into(), what: format!("after {:?}", e) };
                    }
                    class = 5;
                }
            }
        }
        if self.check_c09 {
            if let Err((signature, what)) = closest_oracle(&n.table, &targets_for(&n.table, self.local)) {
                return Step::Violation { signature, what };
            }
            class = 6;
        }
        Step::Next(n, class)
    }
}

/// Seeded non-initial tables: (name, recipe).
pub fn seeds(local: InfoHash) -> Vec<(String, Vec<Ev>)> {
    let g = |c, n: usize| (0..n).map(|j| Ev::OfferGood(c, j)).collect::<Vec<_>>();
    let h = |c, n: usize| (0..n).map(|j| Ev::OfferHearsay(c, j)).collect::<Vec<_>>();
    let _ = local;
    let mut v: Vec<(String, Vec<Ev>)> = vec![("empty".into(), vec![])];
    v.push(("last-bucket-8-good-class0".into(), g(0, 8)));
    v.push(("last-bucket-8-hearsay-class0".into(), h(0, 8)));
    v.push(("last-bucket-7-good-class0".into(), g(0, 7)));
    v.push(("alternating-q-g".into(), (0..8).map(|j| if j % 2 == 0 { Ev::OfferHearsay(0, j) } else { Ev::OfferGood(0, j) }).collect()));
    v.push(("4q-then-4g".into(), (0..8).map(|j| if j < 4 { Ev::OfferHearsay(0, j) } else { Ev::OfferGood(0, j) }).collect()));
    v.push(("4g-then-4q".into(), (0..8).map(|j| if j >= 4 { Ev::OfferHearsay(0, j) } else { Ev::OfferGood(0, j) }).collect()));
    v.push(("1q-alone".into(), h(0, 1)));
    v.push(("stale-8-class0".into(), { let mut e = g(0, 8); e.push(Ev::Advance(901_000)); e }));
    v.push(("stale-5-class0-one-purged".into(), { let mut e = g(0, 5); e.push(Ev::Advance(901_000)); e.push(Ev::LocalRequest(0, 1)); e.push(Ev::LocalRequest(0, 1)); e }));
    v.push(("mixed-classes-0-1-2".into(), { let mut e = g(0, 8); e.extend(g(1, 8)); e.extend(h(2, 5)); e }));
    v.push(("mixed-deep-q-first".into(), { let mut e = h(0, 4); e.extend(h(1, 4)); e.extend(g(2, 3)); e.extend(g(3, 3)); e.extend(g(4, 8)); e }));
    v.push(("split-chain-class4".into(), { let mut e = h(4, 6); e.extend(g(0, 2)); e.extend(g(4, 9).into_iter().skip(6)); e }));
    v.push(("full-buckets-0-1-2-3".into(), { let mut e = g(0, 8); e.extend(g(1, 8)); e.extend(g(2, 8)); e.extend(g(3, 8)); e.extend(g(4, 4)); e }));
    v.push(("deep-158-159".into(), { let mut e = g(158, 5); e.extend(h(159, 4)); e }));
    v.push(("160-buckets".into(), { let mut e = g(159, 9); e.extend(g(158, 3)); e.extend(h(0, 2)); e }));
    v.push(("160-buckets-stale".into(), { let mut e = g(159, 9); e.extend(g(3, 8)); e.push(Ev::Advance(901_000)); e }));
    v
}

pub fn build(ctx: &Ctx, recipe: &[Ev]) -> St {
    set_clock(T0_MS);
    let mut t = RoutingTable::new(ctx.local);
    t.routers.insert(router_addr());
    let mut s = St { table: t, now: T0_MS };
    for e in recipe {
        s = ctx.apply(&s, e);
    }
    s
}

pub fn alphabet(classes: &[usize], members: usize, req_members: usize, steps: &[u64]) -> Vec<Ev> {
    let mut v = vec![];
    for &c in classes {
        for j in 0..members {
            v.push(Ev::OfferGood(c, j));
            v.push(Ev::OfferHearsay(c, j));
        }
        for j in 0..req_members {
            v.push(Ev::LocalRequest(c, j));
            v.push(Ev::RemoteRequest(c, j));
        }
    }
    v.push(Ev::OfferOwnId);
    v.push(Ev::OfferRouter);
    v.push(Ev::OfferRouterNeighbour);
    for &c in classes.iter().take(2) {
        v.push(Ev::AnswerNamingRouter(c, 3));
        v.push(Ev::AnswerNamingMany(c, 3));
    }
    for s in steps {
        v.push(Ev::Advance(*s));
    }
    v
}

fn locals() -> Vec<InfoHash> {
    let mut r = SplitMix(0x5eed_0001);
    vec![InfoHash::from([0u8; 20]), InfoHash::from(r.bytes20())]
}

fn explore(rep: &mut Report, tier: Tier, c08: bool, c09: bool, prop: &str) {
    // (classes, members per class offered, members receiving request events, depth small seeds, depth 160-bucket seeds)
    let (classes, members, reqm, depth, depth_big): (Vec<usize>, usize, usize, u32, u32) = match (tier, c09) {
        (Tier::Quick, false) => (vec![0, 1, 4, 159], 10, 2, 3, 2),
        (Tier::Thorough, false) => (vec![0, 1, 2, 3, 4, 158, 159], 10, 2, 4, 3),
        (Tier::Quick, true) => (vec![0, 1, 4, 159], 10, 1, 2, 1),
        // depth 3 with the per-state oracle over all targets costs ~100x depth 2: same alphabet as quick, one level deeper
        (Tier::Thorough, true) => (vec![0, 1, 4, 159], 10, 1, 3, 2),
    };
    let steps = [1_000u64, 899_000, 901_000];
    let evs = alphabet(&classes, members, reqm, &steps);
    let mut info = vec![];
    for (li, local) in locals().into_iter().enumerate() {
        let ctx = Ctx { local, check_c08: c08, check_c09: c09 };
        let sd = seeds(local);
        let inits: Vec<St> = sd.iter().map(|(_, r)| build(&ctx, r)).collect();
        // the seeded states themselves are checked too
        for (i, s) in inits.iter().enumerate() {
            set_clock(s.now);
            if c08 {
                if let Err((sig, what)) = shape_invariants(&s.table) {
                    rep.violation(format!("table {sig}"), format!("seed {}: {what}", sd[i].0), json!({"engine":"E2","check":prop,"part":"table","local":li,"seed":sd[i].0,"events":[]}));
                }
            }
            if c09 {
                if let Err((sig, what)) = closest_oracle(&s.table, &targets_for(&s.table, local)) {
                    rep.violation(format!("closest {sig}"), format!("seed {}: {what}", sd[i].0), json!({"engine":"E2","check":prop,"part":"table","local":li,"seed":sd[i].0,"events":[]}));
                }
            }
        }
        for big in [false, true] {
            let idx: Vec<usize> = (0..sd.len()).filter(|&i| (inits[i].table.buckets().count() > 40) == big).collect();
            let part: Vec<St> = idx.iter().map(|&i| inits[i].clone()).collect();
            let d = if big { depth_big } else { depth };
            let res = space::dfs(
                part,
                &evs,
                &table_key,
                &|s, e| ctx.step(s, e),
                &space::Cfg { max_depth: d, max_states: 60_000_000, max_violations: 8 },
            );
            rep.add("states", res.states);
            rep.add("transitions", res.transitions);
            if c08 {
                rep.add("table_admitted_free", res.classes[1]);
                rep.add("table_admitted_by_trade", res.classes[2]);
                rep.add("table_rejected", res.classes[3]);
                rep.add("table_inadmissible_ignored", res.classes[4]);
                rep.add("table_status_or_time_events", res.classes[5]);
            }
            info.push(json!({"local": hex(&<[u8;20]>::from(local)), "seeds": idx.iter().map(|&i| sd[i].0.clone()).collect::<Vec<_>>(), "alphabet": evs.len(), "depth": d, "states": res.states, "transitions": res.transitions, "capped": res.capped}));
            for (init, t) in res.sample_traces.iter().rev().take(2) {
                rep.sample(json!({"engine":"E2","part":"table","seed": sd[idx[*init]].0, "events": t.iter().map(ev_json).collect::<Vec<_>>()}));
            }
            for f in res.violations {
                rep.violation(
                    format!("{} {}", if c09 { "closest" } else { "table" }, f.signature),
                    format!("seed {} + {} events: {}", sd[idx[f.init]].0, f.trace.len(), f.what),
                    json!({"engine":"E2","check":prop,"part":"table","local":li,"seed":sd[idx[f.init]].0,"events": f.trace.iter().map(ev_json).collect::<Vec<_>>()}),
                );
            }
        }
    }
    rep.sample(json!({"engine":"E2","part":"table","seed":"4q-then-4g","events":[{"ev":"OfferGood","c":0,"j":9},{"ev":"Advance","ms":901000},{"ev":"OfferHearsay","c":1,"j":0}]}));
    rep.set("table_explorations", json!(info));
}

pub fn replay_table(v: &Value, c08: bool, c09: bool) -> i32 {
    let li = v["local"].as_u64().unwrap_or(0) as usize;
    let local = locals()[li];
    let ctx = Ctx { local, check_c08: c08, check_c09: c09 };
    let seed_name = v["seed"].as_str().unwrap_or("empty");
    let sd = seeds(local);
    let recipe = sd.iter().find(|(n, _)| n == seed_name).map(|(_, r)| r.clone()).unwrap_or_default();
    let mut s = build(&ctx, &recipe);
    println!("seed {seed_name}: {} buckets", s.table.buckets().count());
    for e in v["events"].as_array().cloned().unwrap_or_default() {
        let ev = ev_parse(&e);
        match ctx.step(&s, &ev) {
            Step::Next(n, c) => {
                println!("  {:?} -> class {c}, {} buckets", ev, n.table.buckets().count());
                s = n;
            }
            Step::Disabled => {}
            Step::Violation { signature, what } => {
                println!("  {:?} -> VIOLATION {signature}: {what}", ev);
                return 1;
            }
        }
    }
    if c09 {
        if let Err((sig, what)) = closest_oracle(&s.table, &targets_for(&s.table, local)) {
            println!("VIOLATION {sig}: {what}");
            return 1;
        }
    }
    0
}

pub fn run_c08(tier: Tier, rep: &mut Report) {
    bucket_pattern_sweep(rep);
    explore(rep, tier, true, false, "C08");
    clock::set(None);
}

// ---------------------------------------------------------------------------------------------
// C09

static QUICK_TARGETS: std::sync::atomic::AtomicBool = std::sync::atomic::AtomicBool::new(false);

pub fn targets_for(t: &RoutingTable, local: InfoHash) -> Vec<InfoHash> {
    let mut v = vec![local];
    let quick = QUICK_TARGETS.load(std::sync::atomic::Ordering::Relaxed);
    let nb = t.buckets().count();
    for i in 0..160 {
        // quick tier: every flip up to two past the number of buckets, then a sparse set
        if quick && !(i <= nb + 1 || i % 32 == 0 || i >= 157) {
            continue;
        }
        v.push(flip_bit(local, i));
    }
    for b in t.buckets() {
        for n in b.iter() {
            if n.status() != NodeStatus::Bad {
                v.push(n.id());
            }
        }
    }
    let mut r = SplitMix(0xc09);
    for _ in 0..8 {
        v.push(InfoHash::from(r.bytes20()));
    }
    v.push(InfoHash::from([0xffu8; 20]));
    v
}

pub fn closest_oracle(t: &RoutingTable, targets: &[InfoHash]) -> Result<(), (String, String)> {
    let live = live_nodes(t).map_err(|e| ("duplicate-or-oversize".to_string(), e))?;
    let local = t.node_id();
    for &target in targets {
        let listed: Vec<([u8; 20], SocketAddr, NodeStatus)> =
            t.closest_nodes(target).map(|n| (n.id().into(), n.addr(), n.status())).collect();
        let mut seen = BTreeSet::new();
        for (id, addr, st) in &listed {
            if *st == NodeStatus::Bad {
                return Err(("bad-node-enumerated".into(), format!("target {:?}: {addr} is bad", target)));
            }
            if !seen.insert((*id, *addr)) {
                return Err(("node-enumerated-twice".into(), format!("target {:?}: {addr} listed twice", target)));
            }
            if !live.contains_key(&(*id, *addr)) {
                return Err(("unknown-node-enumerated".into(), format!("target {:?}: {addr}", target)));
            }
        }
        if seen.len() != live.len() {
            let missing: Vec<_> = live.keys().filter(|k| !seen.contains(*k)).map(|k| k.1).collect();
            return Err((
                "live-node-not-enumerated".into(),
                format!("target {:?}: {} of {} live nodes visited, missing {:?}", target, seen.len(), live.len(), &missing[..missing.len().min(3)]),
            ));
        }
        // closer-than-local nodes come within the first min(8, N)
        let p = leading_bit_count(local, target);
        let first: BTreeSet<_> = listed.iter().take(8).map(|(id, addr, _)| (*id, *addr)).collect();
        for (id, addr) in live.keys() {
            if leading_bit_count(InfoHash::from(*id), target) > p && !first.contains(&(*id, *addr)) {
                return Err((
                    "closer-node-not-among-first-8".into(),
                    format!("target {:?}: {addr} shares a longer prefix with the target than the local id but is not among the first 8", target),
                ));
            }
        }
    }
    Ok(())
}

pub fn run_c09(tier: Tier, rep: &mut Report) {
    QUICK_TARGETS.store(tier == Tier::Quick, std::sync::atomic::Ordering::Relaxed);
    explore(rep, tier, false, true, "C09");
    let s = rep.get("states");
    rep.set("closest_enumerations_per_state", tier.pick("local id, single-bit flips at every index <= buckets+1 and at 0,32,64,96,128,157..159, every live member id, 8 pseudo-random ids, all-ones", "local id, all 160 single-bit flips, every live member id, 8 pseudo-random ids, all-ones"));
    rep.set("table_states_checked", s);
    clock::set(None);
}

//! Universal monitors (datagram size for C17, transaction ids for C19) run over the scenario sets
//! of other properties, so that a size / tid violation is reported under its own property id.

use crate::common::*;
use crate::sim::{self, krpc, RunResult};
use serde_json::{json, Value};
use std::collections::{HashMap, HashSet};
use std::net::SocketAddr;

/// A scenario set entry: (description for the replay file, runner).
pub struct Entry {
    pub desc: Value,
    pub real_nodes: Vec<SocketAddr>,
    pub run: Box<dyn Fn() -> RunResult + Send + Sync>,
}

pub fn scenario_sets(tier: Tier) -> Vec<Entry> {
    let mut v: Vec<Entry> = vec![];
    // C01 meshes at the default schedule
    for n in tier.pick(vec![2usize, 3, 4], vec![2, 3, 4, 6, 9]) {
        for v6 in [false, true] {
            for port in [None, Some(4242u16)] {
                let cfg = super::c01::Cfg { n, v6, port, placement: (n % 3) as u8, announcer: 0, searcher: n - 1, announcer2: if n >= 3 { Some(1) } else { None }, announcer2_gap_ms: 500, offset_ms: 1000, reannounce_ms: None, matrix: None, usage: 0, rng_seed: 1 };
                let nodes = (0..n).map(|i| super::c01::node_addr(i, v6)).collect();
                let c2 = cfg.clone();
                v.push(Entry { desc: json!({"set":"C01-mesh","n":n,"v6":v6,"port":port}), real_nodes: nodes, run: Box::new(move || super::c01::run_cfg(&c2, &[None], &[]).0) });
            }
        }
    }
    // C18 long idle runs
    for contacts in 1..=3usize {
        let cfg = super::c18::Cfg { contacts, outages: false, minutes: tier.pick(10, 60), latency: 20, unreachable_hearsay: contacts == 2, search_every_ms: None, send_delay_ms: 0, poll_bootstrapped_ms: None, recv_error_every_ms: None, stall: None, rng_seed: 1 };
        v.push(Entry {
            desc: json!({"set":"C18-idle","contacts":contacts}),
            real_nodes: vec![super::c18::node_addr()],
            run: Box::new(move || {
                let (sc, peers) = super::c18::build(&cfg);
                sim::run(&sc, peers, &mut sim::DefaultChooser)
            }),
        });
    }
    // C05 sequences (reduced alphabet pairs in two configurations)
    let reduced = std::sync::Arc::new(super::c05::reduced_alphabet());
    for (ci, cfg) in super::c05::configs().into_iter().enumerate() {
        if cfg.read_only || (tier == Tier::Quick && ci % 3 != 0) {
            continue;
        }
        for a in (0..reduced.len()).step_by(tier.pick(5, 1)) {
            let r = reduced.clone();
            let c = cfg.clone();
            v.push(Entry {
                desc: json!({"set":"C05-seq","cfg_index":ci,"symbol":a}),
                real_nodes: vec![super::single::node_addr(cfg.v6)],
                run: Box::new(move || {
                    let seq: Vec<&super::c05::Sym> = vec![&r[a].1, &r[(a + 7) % r.len()].1];
                    super::c05::run_sequence(&c, &seq, 1).0
                }),
            });
        }
    }
    // one node running more than a full block (2048) of searches: every search is a new activity
    {
        let n_searches: usize = 2_100;
        v.push(Entry {
            desc: json!({"set":"many-searches","searches":n_searches}),
            real_nodes: vec![super::single::node_addr(false)],
            run: Box::new(move || {
                let cfg = super::single::NodeCfg { v6: false, read_only: true, table: 3, store: false };
                let mut b = super::single::build(&cfg, 0, 1);
                for j in 0..n_searches {
                    b.sc.actions.push((sim::When::At(3_000 + 1_700 * j as u64), sim::Action::Search { node: 0, info_hash: btdht::InfoHash::sha1(format!("many-{j}").as_bytes()), announce: j % 3 == 0, tag: format!("m{j}") }));
                }
                b.sc.horizon_ms = 3_000 + 1_700 * n_searches as u64 + 5_000;
                super::single::run_built(b)
            }),
        });
    }
    for silent in [vec![Some(840_000u64), Some(840_000), None], vec![Some(60_000), None, Some(60_000), Some(960_000)]] {
        let contacts: Vec<super::c11::Contact> = silent.iter().map(|s| super::c11::Contact { leaf: false, silent_at: *s, hearsay: false }).collect();
        let cfg = super::c11::Cfg { contacts, well_connected: true, search_every_ms: Some(600_000), forget_after_ms: 0, minutes: tier.pick(40, 120), latency: 20, per_contact_latency: vec![], unreachable_when_silent: false, announce_burst_at: None, rng_seed: 1 };
        v.push(Entry {
            desc: json!({"set":"C11-well-connected","silent":silent}),
            real_nodes: vec![super::c11::n_addr()],
            run: Box::new(move || {
                let (sc, peers) = super::c11::build(&cfg);
                sim::run(&sc, peers, &mut sim::DefaultChooser)
            }),
        });
    }
    for e in super::extra_universal_sets(tier) {
        v.push(e);
    }
    v
}

/// (runs, wire events, largest datagram, violations)
pub fn size_monitor(tier: Tier) -> (u64, u64, usize, Vec<(String, String, Value)>) {
    let sets = scenario_sets(tier);
    let outs = par_map(&sets, |_, e| {
        let res = (e.run)();
        let mut max = 0usize;
        let mut viol = vec![];
        for d in res.wire.iter().filter(|d| d.from_real) {
            max = max.max(d.bytes.len());
            if d.bytes.len() > 1500 {
                viol.push(("oversized-datagram kind=universal".to_string(), format!("a node emits a {} byte datagram in scenario {}", d.bytes.len(), e.desc)));
            } else if btdht::message::Message::decode(&d.bytes).is_err() {
                viol.push(("emitted-datagram-undecodable".to_string(), format!("scenario {}: {:?}", e.desc, String::from_utf8_lossy(&d.bytes[..d.bytes.len().min(60)]))));
            }
        }
        (res.wire.len() as u64, max, viol)
    });
    let mut wire = 0;
    let mut max = 0;
    let mut viol = vec![];
    for (e, (w, m, v)) in sets.iter().zip(outs) {
        wire += w;
        max = max.max(m);
        for (s, what) in v.into_iter().take(1) {
            viol.push((s, what, json!({"engine":"E1","check":"C17","universal":e.desc})));
        }
    }
    (sets.len() as u64, wire, max, viol)
}

/// C19 wire rules over one run. Returns (queries checked, violations).
pub fn tid_rules(res: &RunResult, real_nodes: &[SocketAddr]) -> (u64, Vec<(String, String)>) {
    let mut viol = vec![];
    let mut checked = 0u64;
    for node in real_nodes {
        // per prefix: set of message ids; and per (dst, tid) counts
        let mut seen_tid_dst: HashMap<(Vec<u8>, SocketAddr), u64> = HashMap::new();
        let mut by_prefix: HashMap<Vec<u8>, Vec<(u64, Vec<u8>, SocketAddr, String)>> = HashMap::new();
        for d in res.wire.iter().filter(|d| d.from_real && d.src == *node) {
            let p = krpc::parse(&d.bytes);
            if !(p.valid && p.y == 'q') {
                continue;
            }
            checked += 1;
            if p.tid.len() != 8 {
                viol.push(("query-tid-not-8-bytes".to_string(), format!("{} sends {} with a {}-byte transaction id", node, p.q, p.tid.len())));
                continue;
            }
            *seen_tid_dst.entry((p.tid.clone(), d.dst)).or_insert(0) += 1;
            // bootstrap's first round asks for the node's own id; every other find_node (bucket rounds,
            // refresh) asks for an id with one bit flipped
            let kind = if p.q == "find_node" && p.target.is_some() && p.target == p.id { "find_node-own-id".to_string() } else { p.q.clone() };
            by_prefix.entry(p.tid[..5].to_vec()).or_default().push((d.sent_ms, p.tid.clone(), d.dst, kind));
        }
        for ((tid, dst), n) in &seen_tid_dst {
            if *n > 1 {
                viol.push(("same-tid-twice-to-one-address".to_string(), format!("{} sent transaction id {} {} times to {}", node, hex(tid), n, dst)));
            }
        }
        // within one activity (prefix) ids do not repeat, except the deliberate sharing of the
        // first bootstrap round: one id towards several distinct addresses in the same instant.
        let mut kinds_of_prefix: HashMap<Vec<u8>, HashSet<&'static str>> = HashMap::new();
        for (prefix, sends) in &by_prefix {
            let mut first_use: HashMap<&Vec<u8>, (u64, &String)> = HashMap::new();
            for (t, tid, _dst, q) in sends {
                match first_use.get(tid) {
                    None => {
                        first_use.insert(tid, (*t, q));
                    }
                    Some((t0, q0)) => {
                        // allowed only as the shared first-round bootstrap id: find_node, same round
                        // (the round is throttled: later sends of the same round come >= 500 ms apart)
                        let shared_round = q == "find_node-own-id" && *q0 == "find_node-own-id" && *t - *t0 <= 60_000;
                        if !shared_round {
                            viol.push(("tid-reused-within-activity".to_string(), format!("{} reuses transaction id {} ({} at {} ms, {} at {} ms)", node, hex(tid), q0, t0, q, t)));
                        }
                    }
                }
            }
            let kinds = kinds_of_prefix.entry(prefix.clone()).or_default();
            for (_, _, _, q) in sends {
                kinds.insert(match q.as_str() {
                    "get_peers" | "announce_peer" => "search",
                    _ => "table",
                });
            }
        }
        for (prefix, kinds) in &kinds_of_prefix {
            if kinds.len() > 1 {
                viol.push(("activities-share-prefix".to_string(), format!("{}: prefix {} is used both by a search and by bootstrap/refresh", node, hex(prefix))));
            }
        }
        // concurrently live searches never share a prefix: a search = one (prefix, info-hash)
        let mut hash_of_prefix: HashMap<Vec<u8>, HashSet<[u8; 20]>> = HashMap::new();
        for d in res.wire.iter().filter(|d| d.from_real && d.src == *node) {
            let p = krpc::parse(&d.bytes);
            if p.is_query("get_peers") && p.tid.len() == 8 {
                hash_of_prefix.entry(p.tid[..5].to_vec()).or_default().insert(p.target.unwrap_or([0; 20]));
            }
        }
        for (prefix, hs) in &hash_of_prefix {
            if hs.len() > 1 {
                viol.push(("activities-share-prefix".to_string(), format!("{}: searches for {} different info-hashes share prefix {}", node, hs.len(), hex(prefix))));
            }
        }
    }
    viol.sort();
    viol.dedup_by(|a, b| a.0 == b.0);
    (checked, viol)
}

/// (runs, queries checked, violations)
pub fn tid_monitor(tier: Tier) -> (u64, u64, Vec<(String, String, Value)>) {
    let sets = scenario_sets(tier);
    let outs = par_map(&sets, |_, e| {
        let res = (e.run)();
        tid_rules(&res, &e.real_nodes)
    });
    let mut checked = 0;
    let mut viol = vec![];
    for (e, (c, v)) in sets.iter().zip(outs) {
        checked += c;
        for (s, what) in v {
            viol.push((format!("wire {s}"), format!("{what} [scenario {}]", e.desc), json!({"engine":"E1","check":"C19","universal":e.desc})));
        }
    }
    (sets.len() as u64, checked, viol)
}

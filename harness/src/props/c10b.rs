//! C10, E1 binding: "a known contact that sent this node a query within the last 15 minutes is good"
//! through the network handler, for every query kind (the E2 model calls remote_request directly;
//! which datagrams lead to it is the handler's business).

use crate::common::*;
use crate::sim::peers::Responder;
use crate::sim::{self, Action, ApiKind, NodeSpec, Peer, RunResult, Scenario, When};
use btdht::InfoHash;
use serde_json::{json, Value};
use std::net::SocketAddr;
use std::sync::Arc;

const KINDS: [&str; 4] = ["ping", "find_node", "get_peers", "announce_bad_token"];

fn stranger() -> SocketAddr {
    "10.0.10.200:4200".parse().unwrap()
}

fn n_addr() -> SocketAddr {
    "10.0.0.10:6881".parse().unwrap()
}
fn n_id() -> [u8; 20] {
    let mut b = SplitMix(0xc10b).bytes20();
    b[0] = 0x3a;
    b
}
fn c_addr() -> SocketAddr {
    "10.0.10.1:6881".parse().unwrap()
}
fn c_id() -> [u8; 20] {
    let mut b = SplitMix(0xc10b_01).bytes20();
    b[0] = 0xc4;
    b
}
fn crowd_addr(i: usize) -> SocketAddr {
    format!("10.0.110.{}:6881", i + 1).parse().unwrap()
}
fn crowd_id(i: usize) -> [u8; 20] {
    let mut b = SplitMix(0xc10b_90 + i as u64).bytes20();
    b[0] = ((i % 2) as u8) << 7 | ((i / 2) as u8) << 4 | 0x03;
    b
}

/// The contact answered the bootstrap, went silent, and sends one query of `kind` at `query_at`.
pub fn build(kind: &str, query_at: u64, rng_seed: u64) -> (Scenario, Vec<Box<dyn Peer>>) {
    let mut sc = Scenario::new("query-makes-known-contact-good");
    sc.rng_seed = rng_seed;
    let mut uni: Vec<([u8; 20], SocketAddr)> = vec![(c_id(), c_addr())];
    for i in 0..12 {
        uni.push((crowd_id(i), crowd_addr(i)));
    }
    let universe = Arc::new(uni);
    let mut peers: Vec<Box<dyn Peer>> = vec![];
    let mut c = Responder::new(c_addr(), c_id(), universe.clone());
    c.silent_from = Some(3_000);
    peers.push(Box::new(c));
    for i in 0..12 {
        let mut r = Responder::new(crowd_addr(i), crowd_id(i), universe.clone());
        // nobody keeps re-introducing the silent contact
        r.forget = vec![(c_addr(), 3_000)];
        peers.push(Box::new(r));
    }
    let mut contacts = vec![c_addr()];
    contacts.extend((0..7).map(crowd_addr));
    sc.nodes.push(NodeSpec { addr: n_addr(), id: Some(InfoHash::from(n_id())), read_only: false, announce_port: None, contacts, routers: vec![], start_ms: 0 });
    sc.actions.push((When::At(query_at - 1), Action::LoadContacts { node: 0, tag: "before".into() }));
    if kind == "spoofed-ping" {
        // a ping that carries the contact's id but comes from another address: not a query *from the contact*
        sc.actions.push((When::At(query_at), Action::Inject { from: stranger(), to: n_addr(), bytes: sim::krpc::ping(b"sp", &c_id()), tag: String::new() }));
    } else {
        sc.actions.push((When::At(query_at), Action::PeerCommand { peer: c_addr(), cmd: format!("{kind} {}", n_addr()) }));
    }
    sc.actions.push((When::At(query_at + 100), Action::LoadContacts { node: 0, tag: "after".into() }));
    sc.actions.push((When::At(query_at + 600_000), Action::LoadContacts { node: 0, tag: "after10min".into() }));
    sc.actions.push((When::At(query_at + 901_000), Action::LoadContacts { node: 0, tag: "after15min".into() }));
    sc.horizon_ms = query_at + 902_000;
    sc.link_latency = Arc::new(|_, _| 20);
    (sc, peers)
}

fn class(res: &RunResult, tag: &str) -> &'static str {
    for e in &res.api {
        if e.tag == tag {
            if let ApiKind::Contacts { good, questionable } = &e.kind {
                return if good.contains(&c_addr()) {
                    "good"
                } else if questionable.contains(&c_addr()) {
                    "questionable"
                } else {
                    "absent"
                };
            }
        }
    }
    "no-sample"
}

pub fn judge(kind: &str, query_at: u64, res: &RunResult) -> (Vec<(String, String)>, String) {
    let mut v = vec![];
    let (b, a, a10, a15) = (class(res, "before"), class(res, "after"), class(res, "after10min"), class(res, "after15min"));
    // premise: the contact answered the bootstrap (wire) and is still listed when it queries
    let answered = res.wire.iter().any(|d| d.src == c_addr() && d.dst == n_addr() && !d.delivered_ms.is_empty() && sim::krpc::parse(&d.bytes).y == 'r');
    let profile = format!("{b}->{a}->{a10}->{a15}");
    if answered && (b == "questionable" || b == "good") {
        if a != "good" {
            v.push((format!("known-contact-not-good-after-its-query kind={kind}"), format!("a contact that answered earlier and is listed {b} sends {kind} at {query_at} ms and is reported {a} right afterwards")));
        } else if a10 != "good" {
            v.push((format!("known-contact-not-good-within-15min-of-its-query kind={kind}"), format!("10 minutes after its {kind} the contact is reported {a10}")));
        }
        if a15 == "good" {
            v.push((format!("contact-good-more-than-15min-after-its-last-sign-of-life kind={kind}"), format!("15 min 1 s after its {kind} (and silent otherwise) the contact is still reported good")));
        }
    }
    if !res.panics.is_empty() {
        v.push(("node-task-panicked".into(), res.panics[0].clone()));
    }
    (v, profile)
}

// ---------------------------------------------------------------------------------------------
// "two unanswered queries while not good": the queries of searches count like any other.

fn x_addr() -> SocketAddr {
    "10.0.10.77:6881".parse().unwrap()
}
fn x_id(h: &[u8; 20]) -> [u8; 20] {
    // close to the searched hashes: asked in the first round after it was named
    let mut b = *h;
    b[19] ^= 0x5a;
    b
}

/// One answering contact G names the silent node X (known by name only, never good) in its get_peers
/// answers; `searches` searches for the same info-hash are requested `gap_ms` apart.
pub fn build_two_searches(searches: usize, gap_ms: u64, rng_seed: u64) -> (Scenario, Vec<Box<dyn Peer>>) {
    build_two_searches_x(searches, gap_ms, rng_seed, false)
}

/// `x_answers_table_queries`: X ignores get_peers but answers ping / find_node (so the refresh's ping, its
/// second query, is answered).
pub fn build_two_searches_x(searches: usize, gap_ms: u64, rng_seed: u64, x_answers_table_queries: bool) -> (Scenario, Vec<Box<dyn Peer>>) {
    let mut sc = Scenario::new("search-queries-count-against-silent-node");
    sc.rng_seed = rng_seed;
    let h = [0x5eu8; 20];
    let universe = Arc::new(vec![(c_id(), c_addr())]);
    let mut g = Responder::new(c_addr(), c_id(), universe.clone());
    g.node_list = crate::sim::peers::NodeList::Fixed(vec![(x_id(&h), x_addr())]);
    #[allow(unused_mut)]
    let mut g = g;
    g.find_node_list = Some(crate::sim::peers::NodeList::Closest8);
    let mut contacts = vec![c_addr()];
    let mut peers: Vec<Box<dyn Peer>> = vec![];
    let mut search_hash = h;
    let xp: Box<dyn Peer> = if x_answers_table_queries {
        // well-connected node (12 more answering contacts: no periodic re-bootstrap, one refresh round per 6 s
        // walking the buckets from 0); X sits in bucket 2 or 3, which the refresh reaches 2..8 s after the search
        let mut xid = n_id();
        let bucket = 2 + (searches % 2);
        xid[0] ^= 0x80 >> bucket;
        xid[19] ^= 0x33;
        let mut x = Responder::new(x_addr(), xid, universe.clone());
        x.search_mode = Some(crate::sim::peers::Mode::Silent);
        g.node_list = crate::sim::peers::NodeList::Fixed(vec![(xid, x_addr())]);
        // the searched hash is X's neighbourhood; G2 (also close to it, so asked in the first round) names X
        let mut hx = xid;
        hx[18] ^= 0x0f;
        let mut g2id = xid;
        g2id[17] ^= 0x01;
        let g2a: SocketAddr = "10.0.10.78:6881".parse().unwrap();
        let mut g2 = Responder::new(g2a, g2id, universe.clone());
        g2.node_list = crate::sim::peers::NodeList::Fixed(vec![(xid, x_addr())]);
        g2.find_node_list = Some(crate::sim::peers::NodeList::None);
        peers.push(Box::new(g2));
        contacts.push(g2a);
        search_hash = hx;
        let cu: Arc<Vec<([u8; 20], SocketAddr)>> = Arc::new((0..12).map(|i| (crowd_id(i), crowd_addr(i))).collect());
        for i in 0..12 {
            peers.push(Box::new(Responder::new(crowd_addr(i), crowd_id(i), cu.clone())));
            contacts.push(crowd_addr(i));
        }
        Box::new(x)
    } else {
        Box::new(crate::sim::peers::Sink { addr: x_addr(), received: vec![] })
    };
    peers.push(Box::new(g));
    peers.push(xp);
    sc.nodes.push(NodeSpec { addr: n_addr(), id: Some(InfoHash::from(n_id())), read_only: true, announce_port: None, contacts, routers: vec![], start_ms: 0 });
    let t0 = 10_300u64;
    for k in 0..searches {
        sc.actions.push((When::At(t0 + k as u64 * gap_ms), Action::Search { node: 0, info_hash: InfoHash::from(search_hash), announce: false, tag: format!("s{k}") }));
    }
    for (k, dt) in [1_700u64, 2_500, 4_000].iter().enumerate() {
        sc.actions.push((When::At(t0 + (searches as u64 - 1) * gap_ms + dt), Action::LoadContacts { node: 0, tag: format!("after{k}") }));
    }
    sc.horizon_ms = t0 + searches as u64 * gap_ms + 6_000;
    if x_answers_table_queries {
        // long enough for the refresh to reach X's bucket (one bucket per 6 s round)
        for (k, dt) in [60_000u64, 120_000].iter().enumerate() {
            sc.actions.push((When::At(t0 + dt), Action::LoadContacts { node: 0, tag: format!("late{k}") }));
        }
        sc.horizon_ms = t0 + 125_000;
    } else {
        // the given-up node itself sends a query: receiving a query never (re-)adds its sender
        sc.actions.push((When::At(t0 + (searches as u64 - 1) * gap_ms + 3_000), Action::Inject { from: x_addr(), to: n_addr(), bytes: sim::krpc::ping(b"xq", &x_id(&h)), tag: String::new() }));
    }
    sc.link_latency = Arc::new(|_, _| 20);
    (sc, peers)
}

/// X answers the table's queries: once it has answered one it must be reported good (an answer always does).
pub fn judge_x_answers(res: &RunResult) -> Vec<(String, String)> {
    let mut v = vec![];
    let answered: Vec<u64> = res.wire.iter().filter(|d| d.src == x_addr() && d.dst == n_addr() && sim::krpc::parse(&d.bytes).y == 'r').filter_map(|d| d.delivered_ms.first().copied()).collect();
    if let Some(t_ans) = answered.first() {
        for e in &res.api {
            if let ApiKind::Contacts { good, .. } = &e.kind {
                if e.t_ms > *t_ans + 100 && e.t_ms < *t_ans + 800_000 && !good.contains(&x_addr()) {
                    v.push(("answering-node-not-reported-good".to_string(), format!("{} answered a query of the node at {} ms (its first answer; an earlier get_peers went unanswered); load_contacts at {} ms does not report it good", x_addr(), t_ans, e.t_ms)));
                    break;
                }
            }
        }
    }
    v
}

pub fn judge_two_searches(res: &RunResult) -> (Vec<(String, String)>, usize) {
    let mut v = vec![];
    // what happens to X, in time order: mentions (an accepted answer naming it re-admits it if it was given up)
    // and queries sent to it (each one counts while it is not good); a mention precedes the query it causes
    let mut events: Vec<(u64, u8)> = vec![];
    for d in &res.wire {
        let p = sim::krpc::parse(&d.bytes);
        if d.src == n_addr() && d.dst == x_addr() && p.y == 'q' {
            events.push((d.sent_ms, 1));
        }
        if d.dst == n_addr() && p.y == 'r' && p.nodes.iter().any(|(_, a)| *a == x_addr()) {
            for t in &d.delivered_ms {
                events.push((*t, 0));
            }
        }
    }
    events.sort();
    let sent = events.iter().filter(|e| e.1 == 1).count();
    for e in &res.api {
        if let ApiKind::Contacts { good, questionable } = &e.kind {
            let mut unanswered = 0u32;
            for (t, kind) in events.iter().filter(|(t, _)| *t < e.t_ms) {
                let _ = t;
                if *kind == 0 {
                    if unanswered >= 2 {
                        unanswered = 0;
                    }
                } else {
                    unanswered += 1;
                }
            }
            if good.contains(&x_addr()) {
                v.push(("node-that-never-answered-reported-good".to_string(), format!("{} never answered anything (it was only named, asked, and at last sent a ping itself); load_contacts at {} ms reports it good", x_addr(), e.t_ms)));
                break;
            }
            if unanswered >= 2 && (good.contains(&x_addr()) || questionable.contains(&x_addr())) {
                v.push(("silent-hearsay-node-still-reported-after-two-unanswered-queries".to_string(), format!("{} has left {} consecutive queries unanswered since it was last named to the node (events (ms, 0 = named / 1 = queried): {:?}), it never answered anything, and load_contacts at {} ms still lists it", x_addr(), unanswered, events, e.t_ms)));
                break;
            }
        }
    }
    (v, sent)
}

pub fn replay(v: &Value) -> i32 {
    if let Some(n) = v["two_searches"].as_u64() {
        let xa = v["x_answers"].as_bool().unwrap_or(false);
        let (sc, peers) = build_two_searches_x(n as usize, v["gap_ms"].as_u64().unwrap_or(0), v["rng_seed"].as_u64().unwrap_or(1), xa);
        let res = sim::run(&sc, peers, &mut sim::DefaultChooser);
        let (mut viol, sent) = if xa { (vec![], 0) } else { judge_two_searches(&res) };
        if xa {
            viol = judge_x_answers(&res);
            for d in res.wire.iter().filter(|d| d.src == x_addr() || d.dst == x_addr()) {
                println!("  {:>7} ms {} > {} {} delivered {:?}", d.sent_ms, d.src, d.dst, sim::krpc::parse(&d.bytes).canon_key(), d.delivered_ms);
            }
            for e in &res.api {
                if let ApiKind::Contacts { good, questionable } = &e.kind {
                    println!("  {:>7} ms {}: X good={} questionable={}", e.t_ms, e.tag, good.contains(&x_addr()), questionable.contains(&x_addr()));
                }
            }
        }
        println!("{sent} queries sent to the silent node");
        for (s, w) in &viol {
            println!("VIOLATION {s}: {w}");
        }
        return if viol.is_empty() { 0 } else { 1 };
    }
    let kind = v["kind"].as_str().unwrap_or("ping").to_string();
    let at = v["query_at"].as_u64().unwrap_or(905_000);
    let (sc, peers) = build(&kind, at, v["rng_seed"].as_u64().unwrap_or(1));
    let res = sim::run(&sc, peers, &mut sim::DefaultChooser);
    let (viol, profile) = judge(&kind, at, &res);
    println!("{kind} at {at} ms: {profile}");
    for (s, w) in &viol {
        println!("VIOLATION {s}: {w}");
    }
    if viol.is_empty() { 0 } else { 1 }
}

pub fn run(tier: Tier, rep: &mut Report) {
    let seed = 1 + seed();
    let mut work: Vec<(&'static str, u64)> = vec![];
    let times: Vec<u64> = tier.pick(vec![60_000, 903_000, 905_000, 912_000], vec![60_000, 600_000, 899_000, 902_000, 903_000, 905_000, 908_000, 912_000, 920_000, 931_000]);
    for k in KINDS {
        for t in &times {
            work.push((k, *t));
        }
    }
    let outs = par_map(&work, |_, (k, t)| {
        let (sc, peers) = build(k, *t, seed);
        let res = sim::run(&sc, peers, &mut sim::DefaultChooser);
        let (viol, profile) = judge(k, *t, &res);
        (res.wire.len() as u64, viol, profile)
    });
    let mut profiles: Vec<Value> = vec![];
    let mut premise = 0u64;
    for ((k, t), (wire, viol, profile)) in work.iter().zip(outs.iter()) {
        rep.add("e1_wire_events", *wire);
        if profile.starts_with("questionable") || profile.starts_with("good") {
            premise += 1;
        }
        profiles.push(json!({"kind":k,"query_at_ms":t,"listed":profile}));
        for (sig, what) in viol {
            rep.violation(format!("handler {sig}"), what.clone(), json!({"engine":"E1","check":"C10","part":"binding","kind":k,"query_at":t,"rng_seed":seed}));
        }
    }
    // the four kinds must agree at every instant
    for t in &times {
        let ps: Vec<&String> = work.iter().zip(outs.iter()).filter(|((_, tt), _)| tt == t).map(|(_, (_, _, p))| p).collect();
        if ps.iter().any(|p| *p != ps[0]) {
            rep.violation("handler query-kinds-classified-differently", format!("at {t} ms the four query kinds lead to different classifications: {:?}", ps), json!({"engine":"E1","check":"C10","part":"binding","kind":"ping","query_at":t,"rng_seed":seed}));
        }
    }
    // a query carrying the contact's id from another address must not refresh the contact
    for t in [901_500u64, 903_000] {
        let (sc, peers) = build("spoofed-ping", t, seed);
        let res = sim::run(&sc, peers, &mut sim::DefaultChooser);
        rep.add("e1_wire_events", res.wire.len() as u64);
        let (b, a) = (class(&res, "before"), class(&res, "after"));
        if b == "questionable" && a == "good" {
            rep.violation("handler query-from-another-address-refreshes-contact", format!("the contact ({}) is questionable at {} ms; a ping carrying its id arrives from {}; right afterwards the contact is reported good", c_addr(), t - 1, stranger()), json!({"engine":"E1","check":"C10","part":"binding","kind":"spoofed-ping","query_at":t,"rng_seed":seed}));
        }
        rep.add("e1_spoofed_id_runs", 1);
    }
    // queries of searches count against a silent node like refresh pings do
    let mut two = 0u64;
    for n in [2usize, 3] {
        for gap in [0u64, 40, 700, 5_000] {
            if n == 3 && gap == 0 {
                // three answers naming X and three queries to it in one millisecond: their order is not observable
                continue;
            }
            let (sc, peers) = build_two_searches(n, gap, seed);
            let res = sim::run(&sc, peers, &mut sim::DefaultChooser);
            let (viol, sent) = judge_two_searches(&res);
            rep.add("e1_wire_events", res.wire.len() as u64);
            rep.add("e1_queries_to_the_silent_hearsay_node", sent as u64);
            two += 1;
            for (sig, what) in viol {
                rep.violation(format!("handler {sig}"), what, json!({"engine":"E1","check":"C10","part":"binding","two_searches":n,"gap_ms":gap,"rng_seed":seed}));
            }
        }
    }
    // repeated: which of the node's activities reaches X first depends on std's per-instance hash keys inside
    // btdht (not owned by the harness), so one execution exposes a fault in this path only with some probability
    for n in [1usize, 2, 1, 2, 1, 2, 1, 2, 1, 2, 1, 2] {
        let (sc, peers) = build_two_searches_x(n, 40, seed, true);
        let res = sim::run(&sc, peers, &mut sim::DefaultChooser);
        rep.add("e1_wire_events", res.wire.len() as u64);
        two += 1;
        for (sig, what) in judge_x_answers(&res) {
            rep.violation(format!("handler {sig}"), what, json!({"engine":"E1","check":"C10","part":"binding","two_searches":n,"gap_ms":40,"x_answers":true,"rng_seed":seed}));
        }
    }
    rep.set("e1_two_search_runs", two);
    rep.set("e1_binding_runs", work.len() as u64);
    rep.set("e1_binding_runs_with_contact_listed_when_it_queries", premise);
    rep.set("e1_binding_profiles", json!(profiles));
    rep.sample(json!({"engine":"E1","part":"binding","kind":"announce_bad_token","query_at_ms":905000}));
}

pub mod c20;

pub mod bind;
pub mod c01;
pub mod c02;
pub mod c03;
pub mod c04;
pub mod c05;
pub mod c06;
pub mod c07;
pub mod c09b;
pub mod c10;
pub mod c10b;
pub mod c11;
pub mod c12;
pub mod c13;
pub mod c14;
pub mod c15;
pub mod c16;
pub mod c17;
pub mod c18;
pub mod c19;
pub mod c20;
pub mod single;
pub mod table;
pub mod universal;

use crate::common::*;

pub fn run(id: &str, tier: Tier) -> Option<Report> {
    Some(match id {
        "C01" => c01::run(tier),
        "C02" => c02::run(tier),
        "C03" => c03::run(tier),
        "C04" => c04::run(tier),
        "C05" => c05::run(tier),
        "C06" => {
            let mut rep = Report::new("C06", "model_checking", tier);
            c06::run(tier, &mut rep);
            bind::c06_binding(tier, &mut rep);
            finalize_counts(&mut rep);
            rep
        }
        "C07" => {
            let mut rep = Report::new("C07", "model_checking", tier);
            c07::run(tier, &mut rep);
            bind::c07_binding(tier, &mut rep);
            finalize_counts(&mut rep);
            rep
        }
        "C08" => {
            let mut rep = Report::new("C08", "model_checking", tier);
            table::run_c08(tier, &mut rep);
            finalize_counts(&mut rep);
            rep
        }
        "C09" => {
            let mut rep = Report::new("C09", "model_checking", tier);
            table::run_c09(tier, &mut rep);
            c09b::run(tier, &mut rep);
            finalize_counts(&mut rep);
            rep
        }
        "C10" => {
            let mut rep = Report::new("C10", "model_checking", tier);
            c10::run(tier, &mut rep);
            c10b::run(tier, &mut rep);
            finalize_counts(&mut rep);
            rep
        }
        "C11" => c11::run(tier),
        "C12" => c12::run(tier),
        "C13" => c13::run(tier),
        "C14" => c14::run(tier),
        "C15" => c15::run(tier),
        "C16" => c16::run(tier),
        "C17" => c17::run(tier),
        "C18" => c18::run(tier),
        "C19" => {
            let mut rep = Report::new("C19", "model_checking", tier);
            c19::run(tier, &mut rep);
            let (runs, checked, viol) = universal::tid_monitor(tier);
            rep.set("wire_monitor_runs", runs);
            rep.set("wire_queries_checked", checked);
            for (sig, what, replay) in viol {
                rep.violation(sig, what, replay);
            }
            finalize_counts(&mut rep);
            rep
        }
        "C20" => c20::run(tier),
        _ => return None,
    })
}

pub fn replay(id: &str, v: &serde_json::Value) -> i32 {
    match id {
        "C01" => c01::replay(v),
        "C02" => c02::replay(v),
        "C03" => c03::replay(v),
        "C04" => c04::replay(v),
        "C05" => c05::replay(v),
        "C06" if v["part"] == "binding" => bind::replay(v),
        "C07" if v["part"] == "binding" => bind::replay(v),
        "C06" => c06::replay(v),
        "C07" => c07::replay(v),
        "C08" => {
            if v["part"] == "bucket" { table::replay_bucket(v) } else { table::replay_table(v, true, false) }
        }
        "C09" if v["part"] == "binding" || v["part"] == "binding-crowded" => c09b::replay(v),
        "C09" => table::replay_table(v, false, true),
        "C10" if v["part"] == "binding" => c10b::replay(v),
        "C10" => c10::replay(v),
        "C11" => c11::replay(v),
        "C12" => c12::replay(v),
        "C13" => c13::replay(v),
        "C14" => c14::replay(v),
        "C15" => c15::replay(v),
        "C16" => c16::replay(v),
        "C17" => c17::replay(v),
        "C18" => c18::replay(v),
        "C19" => c19::replay(v),
        "C20" => c20::replay(v),
        _ => {
            eprintln!("no replay for {id}");
            2
        }
    }
}

/// Fill the generic keys from the engine-specific ones when a check did not set them itself.
pub fn finalize_counts(rep: &mut Report) {
    if rep.get("evaluations") == 0 {
        let t = rep.get("transitions");
        rep.set("evaluations", t);
    }
    if rep.get("distinct_nontrivial") == 0 {
        let s = rep.get("states");
        rep.set("distinct_nontrivial", s);
    }
    if rep.get("traces_validated_against_impl") == 0 {
        let t = rep.get("transitions");
        rep.set("traces_validated_against_impl", t);
    }
}

/// Scenario sets contributed to the universal monitors by properties built later.
pub fn extra_universal_sets(tier: Tier) -> Vec<universal::Entry> {
    let mut v = vec![];
    // C15 bootstrap configurations in which one address is given to the builder both as a plain contact
    // and as a router (the shared first-round id must still go to each address once), and a few without
    // overlap for comparison
    let (mut with, mut without) = (0usize, 0usize);
    for cfg in c15::configs(tier, 1) {
        let overlap = cfg.nodes.iter().any(|n| cfg.routers.contains(n));
        let slot = if overlap { &mut with } else { &mut without };
        if *slot >= if overlap { tier.pick(12, 40) } else { tier.pick(4, 20) } || cfg.horizon_ms > 120_000 {
            continue;
        }
        *slot += 1;
        let c = cfg.clone();
        v.push(universal::Entry {
            desc: serde_json::json!({"set": if overlap { "C15-node-and-router" } else { "C15-bootstrap" }, "cfg": c15::cfg_json(&cfg)}),
            real_nodes: vec![c15::node_addr(cfg.v6)],
            run: Box::new(move || {
                let (sc, peers) = c15::build(&c);
                crate::sim::run(&sc, peers, &mut crate::sim::DefaultChooser)
            }),
        });
    }
    v
}

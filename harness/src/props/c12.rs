//! C12 — the routing table cannot be filled by parties the node did not ask (E1, fault
//! enumeration with a differential oracle: the same execution with and without the injection).

use crate::common::*;
use crate::sim::explore::PrefixChooser;
use crate::sim::peers::{NodeList, Responder};
use crate::sim::{self, krpc, Action, ApiKind, Datagram, NodeSpec, Peer, RunResult, Scenario, When};
use btdht::InfoHash;
use serde_json::{json, Value};
use std::collections::BTreeSet;
use std::net::SocketAddr;
use std::sync::Arc;

#[derive(Clone, Debug)]
pub struct Cfg {
    pub read_only: bool,
    pub contacts: usize,
    pub with_router: bool,
    /// hostile node list served by contact 0 inside its (accepted) answers: 0 none, 1 own id + router + duplicates, 2 fifty names
    pub hostile_list: u8,
    /// the router's address is also passed to add_node
    pub router_also_node: bool,
    pub rng_seed: u64,
}

fn n_addr() -> SocketAddr {
    "10.0.0.12:6881".parse().unwrap()
}
fn n_id() -> [u8; 20] {
    let mut b = SplitMix(0xc12).bytes20();
    b[0] = 0x5c;
    b
}
fn c_addr(i: usize) -> SocketAddr {
    format!("10.0.12.{}:6881", i + 1).parse().unwrap()
}
fn c_id(i: usize) -> [u8; 20] {
    let mut b = SplitMix(0xc12_00 + i as u64).bytes20();
    b[0] = (i as u8) << 6 | 0x11;
    b
}
fn router_addr() -> SocketAddr {
    "10.0.12.200:6881".parse().unwrap()
}
fn fresh_addr(k: usize) -> SocketAddr {
    format!("10.77.{}.{}:{}", k / 200, 1 + k % 200, 7700 + k % 100).parse().unwrap()
}
fn grabber_addr() -> SocketAddr {
    "10.77.77.77:7777".parse().unwrap()
}
fn named_addr(k: usize) -> SocketAddr {
    format!("10.88.0.{}:{}", 1 + k, 8800 + k).parse().unwrap()
}
fn named_id(k: usize) -> [u8; 20] {
    let mut b = SplitMix(0xc12_5000 + k as u64).bytes20();
    b[0] = (k as u8).wrapping_mul(29);
    b
}
fn ih() -> [u8; 20] {
    [0x77; 20]
}

const T_SEARCH: u64 = 6_000;
const HORIZON: u64 = 12_000;

pub fn build(cfg: &Cfg) -> (Scenario, Vec<Box<dyn Peer>>) {
    let mut sc = Scenario::new("admission-control");
    sc.rng_seed = cfg.rng_seed;
    let mut uni: Vec<([u8; 20], SocketAddr)> = (0..cfg.contacts).map(|i| (c_id(i), c_addr(i))).collect();
    if cfg.with_router {
        uni.push(([0xee; 20], router_addr()));
    }
    let universe = Arc::new(uni);
    let mut peers: Vec<Box<dyn Peer>> = vec![];
    for i in 0..cfg.contacts {
        let mut r = Responder::new(c_addr(i), c_id(i), universe.clone());
        r.values = vec![format!("172.12.0.{}:{}", i + 1, 1200 + i).parse().unwrap()];
        if i == 0 {
            match cfg.hostile_list {
                1 => {
                    r.node_list = NodeList::Fixed(vec![
                        (n_id(), n_addr()),
                        (n_id(), named_addr(90)),
                        ([0xee; 20], router_addr()),
                        (named_id(0), router_addr()),
                        (named_id(1), named_addr(1)),
                        (named_id(1), named_addr(1)),
                        (named_id(2), named_addr(2)),
                        (c_id(1), c_addr(1)),
                    ])
                }
                2 => r.node_list = NodeList::Fixed((0..50).map(|k| (named_id(k), named_addr(k))).collect()),
                _ => {}
            }
        }
        peers.push(Box::new(r));
    }
    if cfg.with_router {
        let mut r = Responder::new(router_addr(), [0xee; 20], universe.clone());
        r.values = vec![];
        peers.push(Box::new(r));
    }
    // a party that never gets asked anything: it only queries (and announces with the token it gets)
    peers.push(Box::new(crate::props::single::Client {
        addr: grabber_addr(),
        node: n_addr(),
        id: [0x6b; 20],
        board: Arc::new(std::sync::Mutex::new(crate::props::single::TokenBoard::default())),
        counter: 0,
        grab_and_announce: true,
    }));
    sc.nodes.push(NodeSpec {
        addr: n_addr(),
        id: Some(InfoHash::from(n_id())),
        read_only: cfg.read_only,
        announce_port: None,
        contacts: (0..cfg.contacts).map(c_addr).chain(if cfg.router_also_node && cfg.with_router { vec![router_addr()] } else { vec![] }).collect(),
        routers: if cfg.with_router { vec![router_addr().to_string()] } else { vec![] },
        start_ms: 0,
    });
    sc.actions.push((When::At(0), Action::Bootstrapped { node: 0, tag: "boot".into() }));
    sc.actions.push((When::At(T_SEARCH), Action::Search { node: 0, info_hash: InfoHash::from(ih()), announce: true, tag: "search".into() }));
    for (k, t) in [3_000u64, 9_000, HORIZON - 500].iter().enumerate() {
        sc.actions.push((When::At(*t), Action::ProbeTable { node: 0, from: "10.99.0.1:999".parse().unwrap(), tag: format!("probe{k}") }));
    }
    sc.sample = vec![(0, 500, 250)];
    sc.horizon_ms = HORIZON;
    sc.link_latency = Arc::new(|_, _| 20);
    sc.eligible = Some(Arc::new(|d, p| p.valid && !d.injected && (d.src == n_addr() || d.dst == n_addr()) && d.src != "10.99.0.1:999".parse::<SocketAddr>().unwrap() && d.dst != "10.99.0.1:999".parse::<SocketAddr>().unwrap()));
    (sc, peers)
}

pub const MENU: usize = 4 + 2 * 6 + 5 + 4;

fn injector() -> sim::Injector {
    Arc::new(|log: &[Datagram], _now: u64, _at: &Datagram, m: usize| {
        if m >= 16 {
            // wrong-length ids derived from an id the node really has outstanding, and a party that
            // only ever sends queries (get_peers, then announce_peer with the token it was handed)
            let n = n_addr();
            let last_q = log.iter().rev().filter(|d| d.src == n).map(|d| (d, krpc::parse(&d.bytes))).find(|(_, p)| p.valid && p.y == 'q' && p.tid.len() == 8);
            let nodes: Vec<([u8; 20], SocketAddr)> = (0..8).map(|j| (named_id(120 + j), named_addr(120 + j))).collect();
            let vals = [named_addr(160), named_addr(161)];
            let fid = [0x7eu8; 20];
            return match m {
                16 | 17 | 18 => {
                    let (d, p) = last_q?;
                    let mut tid = p.tid.clone();
                    if m == 16 {
                        tid.push(0x00);
                    } else if m == 17 {
                        tid.extend_from_slice(&[1, 2, 3, 4, 5, 6, 7, 8, 9, 10, 11, 12]);
                    } else {
                        tid.truncate(7);
                    }
                    // from the very node that was asked (m even) -- the id still does not derive from a request
                    Some((d.dst, n, krpc::response(&tid, &fid, Some(b"forged"), Some(&vals), &nodes)))
                }
                19 => {
                    let (_, p) = last_q?;
                    let mut tid = p.tid.clone();
                    tid.push(0x2a);
                    Some((fresh_addr(140), n, krpc::response(&tid, &fid, Some(b"forged"), Some(&vals), &nodes)))
                }
                20 => Some((grabber_addr(), n, krpc::get_peers(b"grab", &[0x6b; 20], &crate::props::single::hash_n(1), None))),
                21 | 22 => {
                    // 8 bytes whose action prefix the node never used: a live prefix with its top bit
                    // (m = 21) / top byte (m = 22) changed -- prefixes are allocated upward from 0
                    let (d, p) = last_q?;
                    let mut tid = p.tid.clone();
                    if m == 21 {
                        tid[0] ^= 0x80;
                    } else {
                        tid[0] = tid[0].wrapping_add(0x33) | 0x01;
                    }
                    let from = if m == 21 { fresh_addr(141) } else { d.dst };
                    Some((from, n, krpc::response(&tid, &fid, Some(b"forged"), Some(&vals), &nodes)))
                }
                _ => {
                    // a query from a fresh address that claims the id of a node the table only knows by name
                    let claimed = if log.len() % 2 == 0 { named_id(1) } else { named_id(7) };
                    Some((fresh_addr(142), n, krpc::ping(b"spoofid1", &claimed)))
                }
            };
        }
        let k = log.len() % 150;
        let fresh = fresh_addr(k);
        let mut fid = [0x7fu8; 20];
        fid[0] = (k as u8).wrapping_mul(13) | 1;
        fid[1] = k as u8;
        let n = n_addr();
        let bytes = match m {
            0 => krpc::ping(b"fq01", &fid),
            1 => krpc::find_node(b"fq02", &fid, &n_id(), None),
            2 => krpc::get_peers(b"fq03", &fid, &ih(), None),
            3 => krpc::announce_peer(b"fq04", &fid, &ih(), b"no-such-token-ever!!", Some(4444)),
            _ => {
                let r = m - 4;
                let tid: Vec<u8> = match r % 6 {
                    0 => vec![b'a', b'a'],
                    1 => vec![9, 8, 7, 6, 5, 4, 3],
                    2 => vec![9, 8, 7, 6, 5, 4, 3, 2, 1],
                    3 => vec![0x42; 20],
                    4 => vec![0x00, 0x00, 0x01, 0x00, 0x00, 0x12, 0x34, 0x56],
                    _ => vec![0xff, 0xff, 0xff, 0xff, 0xff, 0x00, 0x00, 0x01],
                };
                let nodes: Vec<([u8; 20], SocketAddr)> = (0..8).map(|j| (named_id(100 + j), named_addr(100 + j))).collect();
                let vals = [named_addr(150), named_addr(151)];
                krpc::response(&tid, &fid, Some(b"forged"), Some(&vals), &nodes)
            }
        };
        // responses come from a fresh address (variants 4..9) or from a known contact (10..15)
        let from = if m >= 10 { c_addr(0) } else { fresh };
        Some((from, n, bytes))
    })
}

/// Everything a user can observe about contacts and search results, sample by sample.
fn observation(res: &RunResult) -> Vec<String> {
    // (instant, rank, text): events of one millisecond are compared in a fixed order, not in the order in
    // which the runtime happened to run the tasks that reported them
    let mut ev: Vec<(u64, u8, String)> = vec![];
    for e in &res.api {
        match &e.kind {
            ApiKind::Contacts { good, questionable } => ev.push((e.t_ms, 3, format!("{} {} good={:?} questionable={:?}", e.t_ms, e.tag.split('#').next().unwrap_or(""), good, questionable))),
            ApiKind::State { running, bootstrapped, good, questionable, buckets } => ev.push((e.t_ms, 4, format!("{} state running={running} boot={bootstrapped} good={good} q={questionable} buckets={buckets}", e.t_ms))),
            ApiKind::Item(a) if e.tag == "search" => ev.push((e.t_ms, 1, format!("search item {a}"))),
            ApiKind::End if e.tag == "search" => ev.push((e.t_ms, 2, format!("search end {}", e.t_ms))),
            ApiKind::Resolved(b) => ev.push((e.t_ms, 0, format!("{} boot {b}", e.t_ms))),
            _ => {}
        }
    }
    ev.sort();
    let mut v: Vec<String> = ev.into_iter().map(|x| x.2).collect();
    // table dump through the probes: the set of nodes offered in answers to the 161 probes
    for k in 0..3 {
        let tagp = format!("probe{k}:");
        let mut offered: BTreeSet<(String, SocketAddr)> = BTreeSet::new();
        for d in res.wire.iter().filter(|d| d.src == n_addr()) {
            let p = krpc::parse(&d.bytes);
            if p.y == 'r' && p.tid.starts_with(tagp.as_bytes()) {
                for (id, a) in &p.nodes {
                    offered.insert((hex(&id[..4]), *a));
                }
            }
        }
        v.push(format!("probe{k} offers {:?}", offered));
    }
    v
}

fn judge_absolute(cfg: &Cfg, res: &RunResult) -> Vec<(String, String)> {
    let mut v = vec![];
    if !res.panics.is_empty() {
        v.push(("node-task-panicked".to_string(), res.panics[0].clone()));
    }
    // own address / router address never listed; named-only nodes never good
    let answered: BTreeSet<SocketAddr> = res.wire.iter().filter(|d| d.dst == n_addr() && !d.delivered_ms.is_empty() && !d.injected).map(|d| d.src).collect();
    for e in &res.api {
        if let ApiKind::Contacts { good, questionable } = &e.kind {
            for a in good.iter().chain(questionable.iter()) {
                if *a == n_addr() {
                    v.push(("own-address-admitted".to_string(), format!("at {} ms", e.t_ms)));
                }
                if cfg.with_router && *a == router_addr() {
                    v.push(("router-admitted".to_string(), format!("at {} ms", e.t_ms)));
                }
            }
            for a in good {
                if !answered.contains(a) {
                    v.push(("named-only-node-reported-good".to_string(), format!("{a} is reported good at {} ms but never sent this node anything", e.t_ms)));
                }
            }
        }
    }
    v.sort();
    v.dedup_by(|a, b| a.0 == b.0);
    v
}

fn cfg_json(c: &Cfg) -> Value {
    json!({"read_only":c.read_only,"contacts":c.contacts,"with_router":c.with_router,"hostile_list":c.hostile_list,"router_also_node":c.router_also_node,"rng_seed":c.rng_seed})
}
fn cfg_parse(v: &Value) -> Cfg {
    Cfg { read_only: v["read_only"].as_bool().unwrap_or(true), contacts: v["contacts"].as_u64().unwrap_or(3) as usize, with_router: v["with_router"].as_bool().unwrap_or(false), hostile_list: v["hostile_list"].as_u64().unwrap_or(0) as u8, router_also_node: v["router_also_node"].as_bool().unwrap_or(false), rng_seed: v["rng_seed"].as_u64().unwrap_or(1) }
}

fn run_with(cfg: &Cfg, prefix: &[usize]) -> (RunResult, bool) {
    let (mut sc, peers) = build(cfg);
    sc.injector = Some(injector());
    sc.inject_menu = MENU;
    let mut ch = PrefixChooser { prefix, pos: 0, out_of_range: false };
    let res = sim::run(&sc, peers, &mut ch);
    (res, ch.out_of_range)
}

fn diff(base: &[String], got: &[String]) -> Option<String> {
    for (i, (a, b)) in base.iter().zip(got.iter()).enumerate() {
        if a != b {
            return Some(format!("observation #{i} differs:\n      without: {a}\n      with:    {b}"));
        }
    }
    if base.len() != got.len() {
        return Some(format!("{} observations without, {} with the injection", base.len(), got.len()));
    }
    None
}

const MENU_NAMES: [&str; 25] = [
    "ping from a fresh (id,address)", "find_node from a fresh (id,address)", "get_peers from a fresh (id,address)", "announce_peer from a fresh (id,address)",
    "response tid 2 bytes (fresh address)", "response tid 7 bytes (fresh address)", "response tid 9 bytes (fresh address)", "response tid 20 bytes (fresh address)", "response tid 8 bytes, action prefix 2^16 never used (fresh address)", "response tid 8 bytes, action prefix 2^40-1 never used (fresh address)",
    "response tid 2 bytes (from a known contact)", "response tid 7 bytes (from a known contact)", "response tid 9 bytes (from a known contact)", "response tid 20 bytes (from a known contact)", "response tid 8 bytes, action prefix 2^16 never used (from a known contact)", "response tid 8 bytes, action prefix 2^40-1 never used (from a known contact)",
    "response: outstanding id + 1 byte, from the node that was asked", "response: outstanding id + 12 bytes, from the node that was asked", "response: outstanding id cut to 7 bytes, from the node that was asked", "response: outstanding id + 1 byte, from a fresh address",
    "get_peers from a party that then announces with the token it is handed (queries only)",
    "response: live action prefix with its top bit flipped (never used), fresh address", "response: live action prefix with its top byte changed (never used), from the node that was asked",
    "ping from a fresh address claiming the id of a node known only by name", "ping from a fresh address claiming the id of a node known only by name (2)",
];

pub fn replay(v: &Value) -> i32 {
    let cfg = cfg_parse(&v["cfg"]);
    let prefix: Vec<usize> = v["choices"].as_array().map(|a| a.iter().map(|x| x.as_u64().unwrap() as usize).collect()).unwrap_or_default();
    let (base, _) = run_with(&cfg, &[]);
    let (res, _) = run_with(&cfg, &prefix);
    for d in res.wire.iter().filter(|d| d.injected && !String::from_utf8_lossy(&krpc::parse(&d.bytes).tid).starts_with("probe")) {
        let p = krpc::parse(&d.bytes);
        println!("  injected at {} ms: {} > {} {} tid={}", d.sent_ms, d.src, d.dst, p.canon_key(), hex(&p.tid));
    }
    let mut code = 0;
    if let Some(dd) = diff(&observation(&base), &observation(&res)) {
        println!("VIOLATION injection-changes-contacts-or-results: {dd}");
        code = 1;
    }
    for (s, w) in judge_absolute(&cfg, &res) {
        println!("VIOLATION {s}: {w}");
        code = 1;
    }
    code
}

pub fn run(tier: Tier) -> Report {
    let mut rep = Report::new("C12", "fault_enumeration", tier);
    let seed = 1 + seed();
    let mut cfgs = vec![];
    for read_only in [true, false] {
        for (contacts, with_router) in [(3usize, false), (2, true)] {
            for hostile_list in 0..3u8 {
                if tier == Tier::Quick && hostile_list == 2 && !read_only {
                    continue;
                }
                cfgs.push(Cfg { read_only, contacts, with_router, hostile_list, router_also_node: false, rng_seed: seed });
                if with_router && hostile_list == 0 {
                    cfgs.push(Cfg { read_only, contacts, with_router, hostile_list, router_also_node: true, rng_seed: seed });
                }
            }
        }
    }
    let mut runs = 0u64;
    let mut distinct = std::collections::HashSet::new();
    let mut info = vec![];
    let two = tier == Tier::Thorough;
    for cfg in &cfgs {
        let (base, _) = run_with(cfg, &[]);
        runs += 1;
        let base_obs = observation(&base);
        for (s, w) in judge_absolute(cfg, &base) {
            rep.violation(s, format!("{w} [{:?}]", cfg), json!({"engine":"E1","check":"C12","cfg":cfg_json(cfg),"choices":[]}));
        }
        let points = base.choices.len();
        // every (wire event, menu entry); thorough: also a second injection at a later event
        let mut work: Vec<Vec<usize>> = vec![];
        for i in 0..points {
            for m in 1..=MENU {
                let mut p = vec![0usize; i];
                p.push(m);
                work.push(p);
            }
        }
        if two {
            for i in (0..points).step_by(7) {
                for j in ((i + 1)..points).step_by(5) {
                    for (m1, m2) in [(1usize, 9usize), (3, 15), (5, 2), (16, 4)] {
                        let mut p = vec![0usize; i];
                        p.push(m1);
                        p.extend(std::iter::repeat(0).take(j - i - 1));
                        p.push(m2);
                        work.push(p);
                    }
                }
            }
        }
        let outs = par_map(&work, |_, prefix| {
            let (res, oor) = run_with(cfg, prefix);
            let injected = res.wire.iter().filter(|d| d.injected && d.dst == n_addr() && d.src != "10.99.0.1:999".parse::<SocketAddr>().unwrap()).count();
            let d = diff(&base_obs, &observation(&res));
            let abs = judge_absolute(cfg, &res);
            (sim::trace_hash(&res, ""), res.wire.len() as u64, d, abs, oor, injected)
        });
        let mut injected_runs = 0u64;
        for (prefix, (h, wire, d, abs, oor, injected)) in work.iter().zip(outs.iter()) {
            if *oor {
                eprintln!("machinery error: choice prefix out of range in C12");
                std::process::exit(2);
            }
            distinct.insert(*h);
            rep.add("transitions", *wire);
            if *injected > 0 {
                injected_runs += 1;
            }
            let m = *prefix.last().unwrap();
            if let Some(dd) = d {
                let class = if m <= 4 || m == 21 || m >= 24 { "unsolicited-query" } else { "unattributable-response" };
                rep.violation(format!("injection-changes-contacts-or-results kind={class}"), format!("injecting '{}' at wire event #{}: {dd} [{:?}]", MENU_NAMES[m - 1], prefix.len() - 1, cfg), json!({"engine":"E1","check":"C12","cfg":cfg_json(cfg),"choices":prefix}));
            }
            for (s, w) in abs {
                rep.violation(s.clone(), format!("{w} [{:?}]", cfg), json!({"engine":"E1","check":"C12","cfg":cfg_json(cfg),"choices":prefix}));
            }
        }
        runs += work.len() as u64;
        info.push(json!({"cfg":cfg_json(cfg),"wire_events_as_injection_points":points,"menu":MENU,"runs":work.len(),"runs_with_delivered_injection":injected_runs,"observations_compared_per_run":base_obs.len()}));
    }
    rep.set("explorations", json!(info));
    rep.set("evaluations", runs);
    rep.set("states", distinct.len() as u64);
    rep.set("distinct_nontrivial", distinct.len() as u64);
    rep.set("traces_validated_against_impl", runs);
    rep.sample(json!({"cfg":cfg_json(&cfgs[0]),"choices":[0,0,0,5],"menu_entry":MENU_NAMES[4]}));
    rep.observations.push("not asserted (outside the statement): a response carrying the prefix of a live search but an unissued message id does add its sender; a response carrying the refresh activity's prefix is accepted from anybody".into());
    rep.set("rule", "One real node (read-only / serving; 3 contacts or 2 contacts + router; contact 0 optionally serving hostile node lists: own id, router address, duplicates, 50 names) through bootstrap, idle and a search. For every wire event of the base run and each of 16 injections (4 query kinds from a fresh (id,address); responses with 2/7/9/20-byte ids and two never-used action prefixes, from a fresh address and from a known contact) the run is repeated with that one injection (thorough: also pairs) and every load_contacts / get_state sample (every 500 ms), three 161-probe table dumps and the search's items are compared with the run without it. Absolute: own address and router never listed, a node that never sent anything is never reported good.");
    rep
}

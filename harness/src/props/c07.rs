//! C07 — peer store: exact, duplicate-free, 24-hour, capacity-bounded answers.
//! E2: bounded exploration of the real AnnounceStorage from seeded states against a reference map.

use crate::common::*;
use crate::space::{self, Step};
use btdht::verif::{clock, AnnounceStorage};
use btdht::InfoHash;
use serde_json::{json, Value};
use std::collections::{BTreeMap, BTreeSet};
use std::net::SocketAddr;
use std::time::Duration;

const T0_MS: u64 = 3_600_000;
const DAY: u64 = 86_400_000;
const CAP: usize = 500;

fn set_clock(ms: u64) {
    clock::set(Some(Duration::from_millis(ms)));
}

fn hash_n(n: u32) -> InfoHash {
    let mut b = [0u8; 20];
    b[0] = 0xa0;
    b[16..20].copy_from_slice(&n.to_be_bytes());
    InfoHash::from(b)
}

fn addr_n(n: u32) -> SocketAddr {
    // n < 3: the three named addresses (two v4, one v6); beyond: fresh v4 addresses
    match n {
        0 => "10.0.0.1:1111".parse().unwrap(),
        1 => "10.0.0.2:2222".parse().unwrap(),
        2 => "[fd00::6]:6666".parse().unwrap(),
        _ => SocketAddr::from(([10, 200, (n >> 8) as u8, n as u8], 7000 + (n % 1000) as u16)),
    }
}

#[derive(Clone)]
pub struct St {
    store: AnnounceStorage,
    now: u64,
    /// reference: pair -> time of the last successful announce
    model: BTreeMap<(u32, u32), u64>,
    fresh: u32,
}

#[derive(Clone, Debug)]
pub enum Ev {
    Add(u32, u32),
    AddFreshAddr,
    AddFreshHash,
    Find(u32),
    Advance(u64),
}

impl St {
    fn live(&self) -> impl Iterator<Item = (&(u32, u32), &u64)> {
        let now = self.now;
        self.model.iter().filter(move |(_, t)| now - **t < DAY)
    }
    fn live_count(&self) -> usize {
        self.live().count()
    }
}

fn check_finds(s: &St, hashes: &[u32]) -> Result<(), (String, String)> {
    set_clock(s.now);
    let mut c = s.store.clone();
    for &h in hashes {
        let got: Vec<SocketAddr> = c.find_items(&hash_n(h)).collect();
        let set: BTreeSet<SocketAddr> = got.iter().copied().collect();
        if set.len() != got.len() {
            return Err(("duplicate-peer-returned".into(), format!("hash #{h}: {} entries, {} distinct", got.len(), set.len())));
        }
        let want: BTreeSet<SocketAddr> = s.live().filter(|((hh, _), _)| *hh == h).map(|((_, a), _)| addr_n(*a)).collect();
        if set != want {
            let extra: Vec<_> = set.difference(&want).take(2).collect();
            let missing: Vec<_> = want.difference(&set).take(2).collect();
            let sig = if !extra.is_empty() { "expired-or-unknown-peer-returned" } else { "live-peer-missing" };
            return Err((sig.into(), format!("hash #{h} at t={}ms: got {} want {}; extra {:?} missing {:?}", s.now, set.len(), want.len(), extra, missing)));
        }
    }
    Ok(())
}

fn key(s: &St) -> u128 {
    set_clock(s.now);
    let mut f: Vec<u64> = vec![s.fresh as u64];
    for (h, a, age) in s.store.verif_expires() {
        let hb: [u8; 20] = h.into();
        f.push(hash64(&hb));
        f.push(addr_hash(&a));
        f.push((age.as_millis() as u64).min(DAY));
    }
    f.push(u64::MAX);
    for (h, items) in s.store.verif_storage() {
        let hb: [u8; 20] = h.into();
        f.push(hash64(&hb));
        for (a, _) in items {
            f.push(addr_hash(&a));
        }
    }
    f.push(u64::MAX - 1);
    for ((h, a), t) in &s.model {
        f.push(((*h as u64) << 32) | *a as u64);
        f.push((s.now - t).min(DAY));
    }
    key128(&f)
}

fn do_add(n: &mut St, h: u32, a: u32) -> Result<u8, (String, String)> {
    set_clock(n.now);
    let pair_live = n.model.get(&(h, a)).map_or(false, |t| n.now - t < DAY);
    let expect = pair_live || n.live_count() < CAP;
    let got = n.store.add_item(hash_n(h), addr_n(a));
    if got != expect {
        let sig = if got { "announce-accepted-beyond-capacity" } else if pair_live { "re-announce-refused" } else { "announce-refused-below-capacity" };
        return Err((sig.into(), format!("add(hash #{h}, {}) returned {got}, expected {expect} with {} live pairs (pair live: {pair_live})", addr_n(a), n.live_count())));
    }
    if got {
        n.model.insert((h, a), n.now);
    }
    Ok(if got { if pair_live { 2 } else { 1 } } else { 3 })
}

fn tracked_hashes(s: &St) -> Vec<u32> {
    let mut v: Vec<u32> = vec![1, 2, 3];
    if s.fresh > 0 {
        v.push(1000 + s.fresh - 1);
    }
    v
}

fn step(s: &St, e: &Ev) -> Step<St> {
    let mut n = s.clone();
    let r = match *e {
        Ev::Add(h, a) => do_add(&mut n, h, a),
        Ev::AddFreshAddr => {
            n.fresh += 1;
            let a = 100 + n.fresh;
            do_add(&mut n, 1, a)
        }
        Ev::AddFreshHash => {
            n.fresh += 1;
            let h = 1000 + n.fresh - 1;
            do_add(&mut n, h, 0)
        }
        Ev::Find(h) => {
            set_clock(n.now);
            // the real call mutates (lazy expiry); result is compared below through check_finds
            let _ = n.store.find_items(&hash_n(h)).count();
            Ok(4)
        }
        Ev::Advance(ms) => {
            n.now += ms;
            Ok(5)
        }
    };
    match r.and_then(|c| check_finds(&n, &tracked_hashes(&n)).map(|_| c)) {
        Ok(c) => {
            // drop reference entries that can never matter again (expired): keeps keys small
            let now = n.now;
            n.model.retain(|_, t| now - *t < DAY);
            Step::Next(n, c)
        }
        Err((signature, what)) => Step::Violation { signature, what },
    }
}

fn seed(name: &str) -> St {
    set_clock(T0_MS);
    let mut s = St { store: AnnounceStorage::new(), now: T0_MS, model: BTreeMap::new(), fresh: 0 };
    let fill = |s: &mut St, n: u32, spread: bool| {
        for i in 0..n {
            set_clock(s.now);
            let (h, a) = if spread { (2000 + i / 5, 10_000 + i) } else { (3, 10_000 + i) };
            assert!(s.store.add_item(hash_n(h), addr_n(a)));
            s.model.insert((h, a), s.now);
        }
    };
    match name {
        "empty" => {}
        "498-on-one-hash" => fill(&mut s, 498, false),
        "499-on-one-hash" => fill(&mut s, 499, false),
        "500-on-one-hash" => fill(&mut s, 500, false),
        "499-spread" => fill(&mut s, 499, true),
        "500-two-batches-12h-apart" => {
            fill(&mut s, 250, false);
            s.now += DAY / 2;
            for i in 250..500u32 {
                set_clock(s.now);
                assert!(s.store.add_item(hash_n(2000 + i), addr_n(10_000 + i)));
                s.model.insert((2000 + i, 10_000 + i), s.now);
            }
        }
        "499-then-named" => {
            fill(&mut s, 499, true);
            set_clock(s.now);
            assert!(s.store.add_item(hash_n(1), addr_n(0)));
            s.model.insert((1, 0), s.now);
        }
        _ => panic!("unknown seed {name}"),
    }
    s
}

const SEEDS: [&str; 7] = ["empty", "498-on-one-hash", "499-on-one-hash", "500-on-one-hash", "499-spread", "500-two-batches-12h-apart", "499-then-named"];

fn alphabet() -> Vec<Ev> {
    let mut v = vec![];
    for h in [1u32, 2] {
        for a in [0u32, 1, 2] {
            v.push(Ev::Add(h, a));
        }
    }
    v.push(Ev::AddFreshAddr);
    v.push(Ev::AddFreshHash);
    v.push(Ev::Find(1));
    v.push(Ev::Find(2));
    for d in [1_000, DAY / 2, DAY - 1_000, DAY] {
        v.push(Ev::Advance(d));
    }
    v
}

fn ev_json(e: &Ev) -> Value {
    match e {
        Ev::Add(h, a) => json!({"ev":"Add","h":h,"a":a}),
        Ev::AddFreshAddr => json!({"ev":"AddFreshAddr"}),
        Ev::AddFreshHash => json!({"ev":"AddFreshHash"}),
        Ev::Find(h) => json!({"ev":"Find","h":h}),
        Ev::Advance(ms) => json!({"ev":"Advance","ms":ms}),
    }
}

pub fn replay(v: &Value) -> i32 {
    let mut s = seed(v["seed"].as_str().unwrap_or("empty"));
    for e in v["events"].as_array().cloned().unwrap_or_default() {
        let ev = match e["ev"].as_str().unwrap_or("") {
            "Add" => Ev::Add(e["h"].as_u64().unwrap() as u32, e["a"].as_u64().unwrap() as u32),
            "AddFreshAddr" => Ev::AddFreshAddr,
            "AddFreshHash" => Ev::AddFreshHash,
            "Find" => Ev::Find(e["h"].as_u64().unwrap() as u32),
            _ => Ev::Advance(e["ms"].as_u64().unwrap_or(0)),
        };
        match step(&s, &ev) {
            Step::Next(n, c) => {
                println!("  {:?} -> class {c}, live pairs {}", ev, n.live_count());
                s = n;
            }
            Step::Disabled => {}
            Step::Violation { signature, what } => {
                println!("  {:?} -> VIOLATION {signature}: {what}", ev);
                return 1;
            }
        }
    }
    0
}

pub fn run(tier: Tier, rep: &mut Report) {
    let evs = alphabet();
    let mut info = vec![];
    for big in [false, true] {
        let names: Vec<&str> = SEEDS.iter().copied().filter(|n| (*n != "empty") == big).collect();
        let depth = match (tier, big) {
            (Tier::Quick, false) => 6,
            (Tier::Quick, true) => 5,
            (Tier::Thorough, false) => 8,
            (Tier::Thorough, true) => 7,
        };
        let inits: Vec<St> = names.iter().map(|n| seed(n)).collect();
        for (i, init) in inits.iter().enumerate() {
            if let Err((sig, what)) = check_finds(init, &tracked_hashes(init)) {
                rep.violation(format!("store {sig}"), format!("seed {}: {what}", names[i]), json!({"engine":"E2","check":"C07","seed":names[i],"events":[]}));
            }
        }
        let res = space::dfs(
            inits,
            &evs,
            &key,
            &step,
            &space::Cfg { max_depth: depth, max_states: 40_000_000, max_violations: 6 },
        );
        rep.add("states", res.states);
        rep.add("transitions", res.transitions);
        rep.add("e2_new_pair_stored", res.classes[1]);
        rep.add("e2_pair_renewed", res.classes[2]);
        rep.add("e2_refused_full", res.classes[3]);
        info.push(json!({"seeds":names,"depth":depth,"alphabet":evs.len(),"states":res.states,"transitions":res.transitions,"capped":res.capped}));
        for (i, t) in res.sample_traces.iter().take(1) {
            rep.sample(json!({"engine":"E2","seed":names[*i],"events": t.iter().map(ev_json).collect::<Vec<_>>()}));
        }
        for f in res.violations {
            rep.violation(
                format!("store {}", f.signature),
                format!("seed {} + {} events: {}", names[f.init], f.trace.len(), f.what),
                json!({"engine":"E2","check":"C07","seed":names[f.init],"events": f.trace.iter().map(ev_json).collect::<Vec<_>>()}),
            );
        }
    }
    rep.sample(json!({"engine":"E2","seed":"499-on-one-hash","events":[{"ev":"Add","h":1,"a":0},{"ev":"Add","h":2,"a":1},{"ev":"Advance","ms":DAY - 1000},{"ev":"Add","h":1,"a":0},{"ev":"Advance","ms":1000},{"ev":"Find","h":1}]}));
    rep.set("e2_explorations", json!(info));
    clock::set(None);
}

//! C20 — ids derived from an IP satisfy BEP42 (engine E3: bounded-exhaustive input enumeration).

use crate::common::*;
use btdht::InfoHash;
use serde_json::json;
use std::net::{IpAddr, Ipv4Addr, Ipv6Addr};

/// Bitwise CRC32-C (Castagnoli), reflected, independent of the crc32c crate.
pub fn crc32c_ref(data: &[u8]) -> u32 {
    let mut crc: u32 = !0;
    for &b in data {
        crc ^= b as u32;
        for _ in 0..8 {
            let mask = (!(crc & 1)).wrapping_add(1);
            crc = (crc >> 1) ^ (0x82F63B78 & mask);
        }
    }
    !crc
}

const V4_MASK: [u8; 4] = [0x03, 0x0f, 0x3f, 0xff];
const V6_MASK: [u8; 8] = [0x01, 0x03, 0x07, 0x0f, 0x1f, 0x3f, 0x7f, 0xff];

/// The 21-bit prefix BEP42 prescribes for (ip, r), as the three leading id bytes (low 3 bits of the
/// third byte zeroed).
pub fn bep42_prefix(ip: IpAddr, r: u8) -> [u8; 3] {
    let mut buf = [0u8; 8];
    let n = match ip {
        IpAddr::V4(a) => {
            let o = a.octets();
            for i in 0..4 {
                buf[i] = o[i] & V4_MASK[i];
            }
            4
        }
        IpAddr::V6(a) => {
            let o = a.octets();
            for i in 0..8 {
                buf[i] = o[i] & V6_MASK[i];
            }
            8
        }
    };
    buf[0] |= (r & 7) << 5;
    let crc = crc32c_ref(&buf[..n]);
    [(crc >> 24) as u8, (crc >> 16) as u8, ((crc >> 8) as u8) & 0xf8]
}

/// BEP42 validation of `id` for `ip`.
pub fn bep42_valid(ip: IpAddr, id: &[u8; 20]) -> bool {
    let r = id[19] & 7;
    let p = bep42_prefix(ip, r);
    id[0] == p[0] && id[1] == p[1] && (id[2] & 0xf8) == p[2]
}

fn self_check() -> Result<(), String> {
    // The five vectors published in BEP42.
    let vectors: [([u8; 4], u8, [u8; 3]); 5] = [
        ([124, 31, 75, 21], 1, [0x5f, 0xbf, 0xbf]),
        ([21, 75, 31, 124], 86, [0x5a, 0x3c, 0xe9]),
        ([65, 23, 51, 170], 22, [0xa5, 0xd4, 0x32]),
        ([84, 124, 73, 14], 65, [0x1b, 0x03, 0x21]),
        ([43, 213, 53, 83], 90, [0xe5, 0x6f, 0x6c]),
    ];
    for (ip, rand, want) in vectors {
        let p = bep42_prefix(IpAddr::V4(Ipv4Addr::from(ip)), rand & 7);
        if p[0] != want[0] || p[1] != want[1] || p[2] != (want[2] & 0xf8) {
            return Err(format!("reference validator disagrees with BEP42 vector {ip:?}"));
        }
    }
    if crc32c_ref(b"123456789") != 0xE3069283 {
        return Err("reference CRC32-C check value mismatch".into());
    }
    Ok(())
}

#[derive(Default)]
struct Part {
    addrs: u64,
    draws: u64,
    pairs: u64,
    bad: Vec<(IpAddr, [u8; 20])>,
    incomplete: Vec<IpAddr>,
}

fn check_addr(ip: IpAddr, part: &mut Part) {
    let mut seen = 0u8;
    let mut draws = 0;
    while seen != 0xff && draws < 400 {
        let id: [u8; 20] = InfoHash::from_ip(ip).into();
        draws += 1;
        let bit = 1u8 << (id[19] & 7);
        if seen & bit == 0 {
            seen |= bit;
            part.pairs += 1;
        }
        if !bep42_valid(ip, &id) && part.bad.len() < 4 {
            part.bad.push((ip, id));
        }
    }
    part.addrs += 1;
    part.draws += draws;
    if seen != 0xff && part.incomplete.len() < 4 {
        part.incomplete.push(ip);
    }
}

/// Call-history layer: `from_ip` must be a function of its argument alone. Alphabet: IPv4 addresses and
/// the IPv6 addresses whose leading octets repeat them (so that any per-process cache keyed on the
/// masked octets, a prefix of them, or the raw leading bytes sees a collision across families), plus
/// same-family neighbours differing only in bits the mask drops. Every ordered sequence of length
/// 1..=depth over the alphabet is run and *every* call of the sequence is validated.
fn history_alphabet() -> Vec<IpAddr> {
    let v4s: [[u8; 4]; 6] = [[0, 0, 0, 0], [1, 2, 3, 4], [201, 2, 3, 4], [3, 15, 63, 255], [124, 31, 75, 21], [255, 255, 255, 255]];
    let mut al: Vec<IpAddr> = vec![];
    for q in v4s {
        al.push(IpAddr::V4(Ipv4Addr::from(q)));
        // same leading octets, rest zero (+ host part): masked buffers coincide when zero-padded
        let mut o = [0u8; 16];
        o[..4].copy_from_slice(&q);
        o[15] = 1;
        al.push(IpAddr::V6(Ipv6Addr::from(o)));
        // the IPv4 octets masked as from_ip masks them, as an IPv6 prefix
        let mut m = [0u8; 16];
        for i in 0..4 {
            m[i] = q[i] & V4_MASK[i];
        }
        m[9] = 0x12;
        al.push(IpAddr::V6(Ipv6Addr::from(m)));
        // IPv6 whose octets 4..8 are non-zero on top of the same leading octets
        let mut n = o;
        n[4] = 0x1f;
        n[7] = 0xff;
        al.push(IpAddr::V6(Ipv6Addr::from(n)));
    }
    al.sort();
    al.dedup();
    al
}

fn history_layer(depth: usize, rep: &mut Report) -> (u64, u64) {
    let al = history_alphabet();
    let n = al.len();
    let (mut seqs, mut calls) = (0u64, 0u64);
    let mut reported = 0;
    // the calls made before a failing one *in this process*, across sequence boundaries: what a
    // process-wide cache would depend on, and what the replay file has to repeat
    let mut recent: std::collections::VecDeque<IpAddr> = Default::default();
    for len in 1..=depth {
        let total = n.pow(len as u32);
        for code in 0..total {
            let mut c = code;
            let mut hist = Vec::with_capacity(len);
            for _ in 0..len {
                hist.push(al[c % n]);
                c /= n;
            }
            seqs += 1;
            for (k, ip) in hist.iter().enumerate() {
                let id: [u8; 20] = InfoHash::from_ip(*ip).into();
                calls += 1;
                if !bep42_valid(*ip, &id) && reported < 3 {
                    reported += 1;
                    let mut h: Vec<String> = recent.iter().map(|a| a.to_string()).collect();
                    h.push(ip.to_string());
                    rep.violation(
                        format!("from_ip-fails-bep42-after-history family={}", if ip.is_ipv4() { "v4" } else { "v6" }),
                        format!("after the calls {:?} InfoHash::from_ip({ip}) = {} fails the BEP42 check", &h[..h.len() - 1], hex(&id)),
                        json!({"engine":"E3","check":"C20","ip": ip.to_string(), "id": hex(&id), "history": h}),
                    );
                }
                recent.push_back(*ip);
                if recent.len() > 6 {
                    recent.pop_front();
                }
            }
        }
    }
    (seqs, calls)
}

pub fn replay(v: &serde_json::Value) -> i32 {
    if let Some(h) = v["history"].as_array() {
        let mut bad = 0;
        for a in h {
            let ip: IpAddr = a.as_str().unwrap_or("").parse().expect("ip");
            let id: [u8; 20] = InfoHash::from_ip(ip).into();
            let ok = bep42_valid(ip, &id);
            println!("from_ip({ip}) = {} valid={}", hex(&id), ok);
            if !ok {
                bad += 1;
            }
        }
        return if bad > 0 { 1 } else { 0 };
    }
    let ip: IpAddr = v["ip"].as_str().unwrap_or("").parse().expect("ip");
    let mut bad = 0;
    for _ in 0..64 {
        let id: [u8; 20] = InfoHash::from_ip(ip).into();
        let ok = bep42_valid(ip, &id);
        println!("from_ip({ip}) = {} valid={}", hex(&id), ok);
        if !ok {
            bad += 1;
        }
    }
    if bad > 0 { 1 } else { 0 }
}

pub fn run(tier: Tier) -> Report {
    let mut rep = Report::new("C20", "exploration", tier);
    if let Err(e) = self_check() {
        eprintln!("machinery error: {e}");
        std::process::exit(2);
    }
    // call histories first (single-threaded: a per-process cache would be shared between workers)
    let hist_depth = if matches!(tier, Tier::Thorough) { 4 } else { 3 };
    let (hist_seqs, hist_calls) = history_layer(hist_depth, &mut rep);
    // IPv4: all 2^20 combinations of mask-relevant bits x remaining bits all-0 / all-1.
    let chunks: Vec<u32> = (0..256).collect(); // split by the 8 relevant bits of the last octet
    let parts = par_map(&chunks, |_, &last| {
        let mut part = Part::default();
        for rel in 0u32..(1 << 12) {
            let b0 = (rel & 0x3) as u8;
            let b1 = ((rel >> 2) & 0xf) as u8;
            let b2 = ((rel >> 6) & 0x3f) as u8;
            for fill in [0u8, 0xff] {
                let o = [
                    b0 | (fill & !V4_MASK[0]),
                    b1 | (fill & !V4_MASK[1]),
                    b2 | (fill & !V4_MASK[2]),
                    last as u8,
                ];
                check_addr(IpAddr::V4(Ipv4Addr::from(o)), &mut part);
            }
        }
        part
    });
    let mut total = Part::default();
    let mut v4_addrs = 0;
    for p in parts {
        v4_addrs += p.addrs;
        total.addrs += p.addrs;
        total.draws += p.draws;
        total.pairs += p.pairs;
        total.bad.extend(p.bad);
        total.incomplete.extend(p.incomplete);
    }

    // IPv6 families.
    let mut v6: Vec<[u8; 16]> = vec![];
    for bg in [0u8, 0xff] {
        for pos in 0..8 {
            for val in 0..=255u8 {
                let mut o = [bg; 16];
                o[pos] = val;
                v6.push(o);
            }
        }
        // every pair of single-bit flips in the first 64 bits
        for a in 0..64 {
            for b in (a + 1)..64 {
                let mut o = [bg; 16];
                o[a / 8] ^= 1 << (7 - a % 8);
                o[b / 8] ^= 1 << (7 - b % 8);
                v6.push(o);
            }
        }
        // the low 64 bits must not matter
        for pos in 8..16 {
            for val in [0u8, 1, 0x80, 0xff] {
                let mut o = [bg; 16];
                o[pos] = val;
                v6.push(o);
            }
        }
    }
    // special-purpose ranges that embed IPv4 addresses or have zero halves: IPv4-mapped, IPv4-compatible,
    // NAT64, 6to4, Teredo, link-local, loopback / unspecified
    for a in [[0u8, 0, 0, 0], [1, 2, 3, 4], [124, 31, 75, 21], [192, 168, 1, 1], [255, 255, 255, 255], [10, 0, 0, 1], [127, 0, 0, 1], [3, 15, 63, 255]] {
        let mut o = [0u8; 16];
        o[10] = 0xff;
        o[11] = 0xff;
        o[12..16].copy_from_slice(&a);
        v6.push(o); // ::ffff:a.b.c.d
        let mut o = [0u8; 16];
        o[12..16].copy_from_slice(&a);
        v6.push(o); // ::a.b.c.d
        let mut o = [0u8; 16];
        o[0] = 0x00;
        o[1] = 0x64;
        o[2] = 0xff;
        o[3] = 0x9b;
        o[12..16].copy_from_slice(&a);
        v6.push(o); // 64:ff9b::a.b.c.d
        let mut o = [0u8; 16];
        o[0] = 0x20;
        o[1] = 0x02;
        o[2..6].copy_from_slice(&a);
        v6.push(o); // 2002:a.b.c.d::
        let mut o = [0u8; 16];
        o[0] = 0x20;
        o[1] = 0x01;
        o[4..8].copy_from_slice(&a);
        o[12..16].copy_from_slice(&a);
        v6.push(o); // 2001:0:a.b.c.d::...
        let mut o = [0u8; 16];
        o[0] = 0xfe;
        o[1] = 0x80;
        o[12..16].copy_from_slice(&a);
        v6.push(o); // fe80::...
    }
    if tier == Tier::Thorough {
        // every combination of the relevant bits of every pair of octets, zero background
        for a in 0..8usize {
            for b in (a + 1)..8usize {
                let (na, nb) = (a + 1, b + 1);
                for va in 0u32..(1 << na) {
                    for vb in 0u32..(1 << nb) {
                        let mut o = [0u8; 16];
                        o[a] = va as u8;
                        o[b] = vb as u8;
                        v6.push(o);
                    }
                }
            }
        }
        // every combination of relevant bits of octets 0..=4 (15 bits) x octet 7 in {0,0xff}
        for v in 0u32..(1 << 15) {
            for o7 in [0u8, 0xff] {
                let mut o = [0u8; 16];
                o[0] = (v & 1) as u8;
                o[1] = ((v >> 1) & 3) as u8;
                o[2] = ((v >> 3) & 7) as u8;
                o[3] = ((v >> 6) & 0xf) as u8;
                o[4] = ((v >> 10) & 0x1f) as u8;
                o[7] = o7;
                v6.push(o);
            }
        }
    }
    v6.sort();
    v6.dedup();
    let v6_chunks: Vec<&[[u8; 16]]> = v6.chunks(2048).collect();
    let parts = par_map(&v6_chunks, |_, chunk| {
        let mut part = Part::default();
        for o in chunk.iter() {
            check_addr(IpAddr::V6(Ipv6Addr::from(*o)), &mut part);
        }
        part
    });
    let mut v6_addrs = 0;
    for p in parts {
        v6_addrs += p.addrs;
        total.addrs += p.addrs;
        total.draws += p.draws;
        total.pairs += p.pairs;
        total.bad.extend(p.bad);
        total.incomplete.extend(p.incomplete);
    }

    // ids that fail BEP42 are reported first; only a run without any is asked for full coverage of r
    if !total.incomplete.is_empty() && total.bad.is_empty() && rep.violations.is_empty() {
        eprintln!(
            "machinery error: 400 draws did not cover all 8 values of r for {:?}",
            total.incomplete[0]
        );
        std::process::exit(2);
    }
    for (ip, id) in total.bad.iter().take(3) {
        rep.violation(
            format!("from_ip-fails-bep42 family={}", if ip.is_ipv4() { "v4" } else { "v6" }),
            format!("InfoHash::from_ip({ip}) = {} fails the BEP42 check", hex(id)),
            json!({"engine":"E3","check":"C20","ip": ip.to_string(), "id": hex(id)}),
        );
    }
    rep.set("evaluations", total.draws);
    rep.set("distinct_nontrivial", total.pairs);
    rep.set("states", total.pairs);
    rep.set("transitions", total.draws);
    rep.set("traces_validated_against_impl", total.draws);
    rep.set("ipv4_addresses", v4_addrs);
    rep.set("history_alphabet", history_alphabet().len());
    rep.set("history_depth", hist_depth);
    rep.set("history_sequences", hist_seqs);
    rep.set("history_calls_validated", hist_calls);
    rep.set("ipv6_addresses", v6_addrs);
    rep.set("exhaustive", true);
    rep.set(
        "rule",
        "IPv4: all 2^20 values of the mask-relevant bits x remaining bits all-0/all-1 (2^21 addresses); IPv6: every octet value at each of the first 8 positions (4 values at the last 8) on all-0/all-1 backgrounds, IPv4-embedding and special-purpose ranges (::ffff:0:0/96, ::/96, 64:ff9b::/96, 2002::/16, 2001::/32, fe80::/10), every pair of single-bit flips in the /64 (thorough: + every relevant-bit combination of each octet pair and of octets 0..4). For each address from_ip is drawn until all 8 values of the 3 random bits were observed; distinct_nontrivial counts distinct (address, r) pairs; every draw is validated by an independent bitwise CRC32-C BEP42 validator (self-checked on the 5 published vectors).",
    );
    let id: [u8; 20] = InfoHash::from_ip("124.31.75.21".parse().unwrap()).into();
    rep.sample(json!({"ip":"124.31.75.21","id":hex(&id),"valid":bep42_valid("124.31.75.21".parse().unwrap(), &id)}));
    let ip6: IpAddr = "2001:db8:85a3::8a2e:370:7334".parse().unwrap();
    let id: [u8; 20] = InfoHash::from_ip(ip6).into();
    rep.sample(json!({"ip":ip6.to_string(),"id":hex(&id),"valid":bep42_valid(ip6, &id)}));
    rep.assume("IPv6 is bounded to the stated families (2^36 relevant-bit classes are not exhaustible)");
    rep.assume("the 3 random bits are covered by repeated draws until all 8 values were seen (machinery error otherwise)");
    rep
}

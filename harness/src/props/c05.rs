//! C05 — each well-formed query gets exactly one correct reply; nothing else is answered (E1).

use super::single::{self, NodeCfg};
use crate::common::*;
use crate::sim::{self, krpc, Action, When};
use serde_json::{json, Value};

pub type Sym = Vec<(usize, String)>;

fn tid_hex(len: usize) -> String {
    let bytes: Vec<u8> = (0..len).map(|i| [b't', b'1', b':', b'e', 0xff, 0x00][i % 6]).collect();
    hex(&bytes)
}

fn nonquery_hex() -> Vec<(String, String)> {
    let id = [b'z'; 20];
    let mut v = vec![];
    v.push(("response-8-byte-tid".to_string(), hex(&krpc::response(b"12345678", &id, Some(b"tok"), None, &[]))));
    v.push(("response-2-byte-tid".to_string(), hex(&krpc::response(b"aa", &id, None, None, &[]))));
    v.push(("error".to_string(), hex(&krpc::error(b"aa", 201, "oops"))));
    v.push(("garbage".to_string(), hex(b"\x00\xffgarbage that is not bencode")));
    let q = krpc::get_peers(b"aa", &id, &single::hash_n(1), None);
    v.push(("truncated-query".to_string(), hex(&q[..q.len() - 7])));
    let unknown = crate::benc::Val::dict(vec![
        ("t", crate::benc::Val::s("aa")),
        ("y", crate::benc::Val::s("q")),
        ("q", crate::benc::Val::s("vote")),
        ("a", crate::benc::Val::dict(vec![("id", crate::benc::Val::b(&id))])),
    ])
    .canon()
    .encode();
    v.push(("unknown-method".to_string(), hex(&unknown)));
    let short_id = crate::benc::Val::dict(vec![
        ("t", crate::benc::Val::s("aa")),
        ("y", crate::benc::Val::s("q")),
        ("q", crate::benc::Val::s("ping")),
        ("a", crate::benc::Val::dict(vec![("id", crate::benc::Val::b(&[b'z'; 19]))])),
    ])
    .canon()
    .encode();
    v.push(("ping-with-19-byte-id".to_string(), hex(&short_id)));
    v
}

/// The full single-symbol alphabet: (label, symbol).
pub fn full_alphabet() -> Vec<(String, Sym)> {
    let mut v: Vec<(String, Sym)> = vec![];
    for src in [0usize, 1, 2, 4, 5] {
        // sources 4 and 5 (IPv4-mapped, scoped link-local) with two id lengths
        for tl in if src < 3 { vec![0usize, 1, 2, 8, 32] } else { vec![2usize, 8] } {
            let t = format!("tid={}", tid_hex(tl));
            v.push((format!("ping src{src} tid{tl}"), vec![(src, format!("ping {t}"))]));
            for w in ["-", "n4", "n6", "both", "n6n4", "n6n6", "n4n4", "n4zz", "empty"] {
                v.push((format!("find_node want={w} src{src} tid{tl}"), vec![(src, format!("fn {w} {t}"))]));
                v.push((format!("get_peers want={w} src{src} tid{tl}"), vec![(src, format!("gp 1 {w} {t}"))]));
            }
            for port in ["7777", "implied", "implied+7777", "notimplied+7777"] {
                for tok in ["valid", "of:1", "random", "short", "empty", "plus"] {
                    let other = if src == 1 { "of:0" } else { tok };
                    let tok = if tok == "of:1" { other } else { tok };
                    // the client fetches a token first (that get_peers is checked as well)
                    v.push((
                        format!("announce port={port} token={tok} src{src} tid{tl}"),
                        vec![(src, "gp 2 -".to_string()), (if src == 1 { 0 } else { 1 }, "gp 2 -".to_string()), (src, format!("ann 2 {port} {tok} {t}"))],
                    ));
                }
            }
        }
        for (label, h) in nonquery_hex() {
            v.push((format!("{label} src{src}"), vec![(src, format!("raw {h}"))]));
        }
        // the application calls the API in the very millisecond in which queries arrive (12 rounds)
        {
            let mut sym: Sym = vec![];
            for r in 0..12 {
                sym.push((src, "api".to_string()));
                sym.push((src, if r % 2 == 0 { "ping".to_string() } else { "gp 1 -".to_string() }));
            }
            v.push((format!("12 x (API calls + query in one ms) src{src}"), sym));
        }
        // the socket reports a receive error (queued ICMP error, interrupted call); the queries after it
        // are queries like any other
        for kind in ["ConnectionReset", "ConnectionRefused", "Interrupted", "Other"] {
            v.push((format!("recv error {kind} then ping and get_peers src{src}"), vec![(src, format!("recverr {kind}")), (src, "ping".to_string()), (src, "gp 1 -".to_string())]));
        }
    }
    v
}

/// Reduced alphabet for sequences: every kind x token class x want, one tid length, two sources.
pub fn reduced_alphabet() -> Vec<(String, Sym)> {
    let mut v: Vec<(String, Sym)> = vec![];
    v.push(("ping a".into(), vec![(0, "ping".into())]));
    v.push(("find_node a".into(), vec![(0, "fn -".into())]));
    v.push(("find_node both b".into(), vec![(1, "fn both".into())]));
    for (src, name) in [(0usize, "a"), (1, "b")] {
        v.push((format!("get_peers h1 {name}"), vec![(src, "gp 1 -".into())]));
    }
    v.push(("get_peers h1 n6 v6".into(), vec![(2, "gp 1 n6".into())]));
    v.push(("get_peers h2 a".into(), vec![(0, "gp 2 both".into())]));
    for (src, name) in [(0usize, "a"), (1, "b")] {
        v.push((format!("announce h1 explicit valid {name}"), vec![(src, "ann 1 7777 valid".into())]));
    }
    v.push(("announce h1 implied valid a".into(), vec![(0, "ann 1 implied valid".into())]));
    v.push(("announce h2 implied valid a'".into(), vec![(3, "ann 2 implied of:0".into())]));
    v.push(("announce h1 token-of-b a".into(), vec![(0, "ann 1 7777 of:1".into())]));
    v.push(("announce h1 random a".into(), vec![(0, "ann 1 7777 random".into())]));
    v.push(("announce h1 short b".into(), vec![(1, "ann 1 implied short".into())]));
    v.push(("announce h1 empty a".into(), vec![(0, "ann 1 7777 empty".into())]));
    v.push(("announce h1 valid v6".into(), vec![(2, "ann 1 6666 valid".into())]));
    for (label, h) in nonquery_hex() {
        v.push((format!("{label} a"), vec![(0, format!("raw {h}"))]));
    }
    v.push(("recv error ConnectionReset".into(), vec![(0, "recverr ConnectionReset".into())]));
    v
}

pub fn configs() -> Vec<NodeCfg> {
    let mut v = vec![];
    for v6 in [false, true] {
        for read_only in [false, true] {
            for table in [0usize, 3, 9] {
                for store in [false, true] {
                    v.push(NodeCfg { v6, read_only, table, store });
                }
            }
        }
    }
    v
}

const LINK_MS: u64 = 5;

pub fn run_sequence(cfg: &NodeCfg, seq: &[&Sym], rng_seed: u64) -> (sim::RunResult, single::Findings) {
    run_sequence_at(cfg, seq, rng_seed, 0)
}

/// The same, with the first symbol `offset_ms` after the node is ready (an idle node in between).
pub fn run_sequence_at(cfg: &NodeCfg, seq: &[&Sym], rng_seed: u64, offset_ms: u64) -> (sim::RunResult, single::Findings) {
    let mut b = single::build(cfg, 0, rng_seed);
    let mut t = b.ready_ms + 100 + offset_ms;
    for sym in seq {
        let mut slot = 0u64;
        for (client, cmd) in sym.iter() {
            let at = t + 20 * slot;
            if cmd == "api" {
                // API calls of the application in the very millisecond in which the next datagram is delivered
                // (PeerCommand emits at `at`, the link takes LINK_MS)
                b.sc.actions.push((When::At(at + LINK_MS), Action::GetStateBurst { node: 0, n: 6 }));
                b.sc.actions.push((When::At(at + LINK_MS), Action::LoadContacts { node: 0, tag: format!("api{at}") }));
                continue;
            }
            if let Some(kind) = cmd.strip_prefix("recverr ") {
                b.sc.actions.push((When::At(at), Action::RecvError { node: 0, kind: kind.to_string() }));
                slot += 1;
                continue;
            }
            b.sc.actions.push((When::At(at), Action::PeerCommand { peer: single::client_addr(*client), cmd: cmd.clone() }));
            slot += 1;
        }
        t += 20 * slot.saturating_sub(5);
        t += 100;
    }
    b.sc.horizon_ms = t + 300;
    let res = single::run_built(b);
    let mut model = single::Model::default();
    let f = single::check(&res, cfg, &mut model);
    (res, f)
}

fn cfg_json(c: &NodeCfg) -> Value {
    json!({"v6":c.v6,"read_only":c.read_only,"table":c.table,"store":c.store})
}
pub fn cfg_parse(v: &Value) -> NodeCfg {
    NodeCfg { v6: v["v6"].as_bool().unwrap_or(false), read_only: v["read_only"].as_bool().unwrap_or(false), table: v["table"].as_u64().unwrap_or(0) as usize, store: v["store"].as_bool().unwrap_or(false) }
}

pub fn replay(v: &Value) -> i32 {
    if v["report_tag"] == "C05" {
        let c = &v["cfg"];
        let cfg = super::c17::Cfg { v6_peers: c["v6_peers"].as_bool().unwrap_or(false), node_v6: c["node_v6"].as_bool().unwrap_or(false), k: c["k"].as_u64().unwrap_or(0) as usize, table: c["table"].as_u64().unwrap_or(0) as usize, all_tid_lengths: true };
        let (_, f, _) = super::c17::run_one(&cfg, v["rng_seed"].as_u64().unwrap_or(1));
        let mut code = 0;
        for (tag, sig, what) in &f.items {
            if *tag == "C05" {
                println!("VIOLATION {sig}: {what}");
                code = 1;
            }
        }
        return code;
    }
    if v["collision"] == true {
        let (res, f) = collision_run(v["v6"].as_bool().unwrap_or(false), v["rng_seed"].as_u64().unwrap_or(1));
        let node = single::node_addr(v["v6"].as_bool().unwrap_or(false));
        for d in res.wire.iter().filter(|d| (d.src == node || d.dst == node) && d.sent_ms < 200) {
            let p = krpc::parse(&d.bytes);
            println!("  {:>6} ms {} > {} {} tid={}", d.sent_ms, d.src, d.dst, p.canon_key(), hex(&p.tid));
        }
        let mut code = 0;
        for (tag, sig, what) in &f.items {
            if *tag == "C05" {
                println!("VIOLATION {sig}: {what}");
                code = 1;
            }
        }
        return code;
    }
    let cfg = cfg_parse(&v["cfg"]);
    let seq: Vec<Sym> = v["sequence"]
        .as_array()
        .map(|a| a.iter().map(|s| s.as_array().unwrap().iter().map(|c| (c[0].as_u64().unwrap() as usize, c[1].as_str().unwrap().to_string())).collect()).collect())
        .unwrap_or_default();
    let refs: Vec<&Sym> = seq.iter().collect();
    let (res, f) = run_sequence_at(&cfg, &refs, v["rng_seed"].as_u64().unwrap_or(1), v["offset_ms"].as_u64().unwrap_or(0));
    let node = single::node_addr(cfg.v6);
    for d in res.wire.iter().filter(|d| (d.src == node || d.dst == node) && d.sent_ms >= 1000) {
        let p = krpc::parse(&d.bytes);
        println!("  {:>6} ms {} > {} {} ({} bytes) tid={} delivered={:?}", d.sent_ms, d.src, d.dst, p.canon_key(), d.bytes.len(), hex(&p.tid), d.delivered_ms);
    }
    println!("run ended at {} ms; node task panics: {}", res.end_ms, res.panics.len());
    let prop = v["check"].as_str().unwrap_or("C05");
    let mut code = 0;
    for (tag, sig, what) in &f.items {
        println!("{} {tag} {sig}: {what}", if *tag == prop { "VIOLATION" } else { "other-property" });
        if *tag == prop {
            code = 1;
        }
    }
    code
}

fn sym_json(s: &Sym) -> Value {
    json!(s.iter().map(|(c, cmd)| json!([c, cmd])).collect::<Vec<_>>())
}

/// The symbol the code suggests: a well-formed query from a contact's address that carries the
/// transaction id the node currently has outstanding towards that very contact (here: the contact
/// sends the node's own find_node back, which is a well-formed find_node query).
pub fn collision_run(v6: bool, rng_seed: u64) -> (sim::RunResult, single::Findings) {
    let cfg = NodeCfg { v6, read_only: false, table: 3, store: false };
    let mut b = single::build(&cfg, 0, rng_seed);
    // contact 0 echoes
    let echo_addr = single::contact_addr(0, v6);
    for p in b.peers.iter_mut() {
        if p.addr() == echo_addr {
            let mut r = crate::sim::peers::Responder::new(echo_addr, single::contact_id(0), std::sync::Arc::new(vec![]));
            r.mode = crate::sim::peers::Mode::Echo;
            *p = Box::new(r);
        }
    }
    b.sc.horizon_ms = 12_000;
    let res = single::run_built(b);
    let mut model = single::Model::default();
    let f = single::check(&res, &cfg, &mut model);
    (res, f)
}

pub fn run(tier: Tier) -> Report {
    let mut rep = Report::new("C05", "model_checking", tier);
    let seed = 1 + seed();
    // crowded info-hash: the reply has to be cut down to fit a datagram, and must still be sent
    {
        let mut heavy: Vec<super::c17::Cfg> = vec![];
        for k in tier.pick(vec![150usize, 200], vec![146, 150, 177, 200, 300, 500]) {
            for v6 in [false, true] {
                for table in [0usize, 9] {
                    heavy.push(super::c17::Cfg { v6_peers: v6, node_v6: v6, k, table, all_tid_lengths: true });
                }
            }
        }
        let outs = par_map(&heavy, |_, cfg| {
            let (res, f, _) = super::c17::run_one(cfg, seed);
            (res.wire.len() as u64, f)
        });
        for (cfg, (wire, f)) in heavy.iter().zip(outs.iter()) {
            rep.add("transitions", *wire);
            rep.add("replies_checked", f.replies_checked);
            rep.add("crowded_store_runs", 1);
            for (tag, sig, what) in &f.items {
                if *tag == "C05" {
                    rep.violation(format!("crowded-store {sig}"), format!("{what} [{:?}]", cfg), json!({"engine":"E1","check":"C17","cfg":{"v6_peers":cfg.v6_peers,"node_v6":cfg.node_v6,"k":cfg.k,"table":cfg.table,"all_tid_lengths":true},"rng_seed":seed,"report_tag":"C05"}));
                }
            }
        }
    }
    for v6 in [false, true] {
        let (res, f) = collision_run(v6, seed);
        rep.add("transitions", res.wire.len() as u64);
        rep.add("collision_symbol_queries", f.replies_checked);
        for (tag, sig, what) in &f.items {
            if *tag == "C05" {
                rep.violation(format!("pending-exchange-collision {sig}"), format!("{what} [a contact sends a well-formed query carrying the transaction id the node has outstanding towards it]"), json!({"engine":"E1","check":"C05","collision":true,"v6":v6,"rng_seed":seed}));
            }
        }
    }
    let cfgs = configs();
    let full = full_alphabet();
    let reduced = reduced_alphabet();
    // layer 0: the announce symbols (fetch a token, announce with it 40 ms later) on a node that has been
    // idle for a while: "token right" must be acknowledged whatever the age of the node's secrets
    {
        let late_syms: Vec<usize> = full.iter().enumerate().filter(|(_, (l, _))| l.starts_with("announce port=7777 token=") && l.ends_with("src0 tid8")).map(|(i, _)| i).collect();
        let offsets: Vec<u64> = tier.pick(vec![301_000, 660_000, 1_260_000, 1_860_000], vec![1_000, 299_000, 301_000, 599_000, 601_000, 660_000, 899_000, 901_000, 1_260_000, 1_799_000, 1_860_000, 3_600_000]);
        let mut late: Vec<(usize, usize, u64)> = vec![];
        for (ci, c) in cfgs.iter().enumerate() {
            if c.read_only || c.store || c.table == 3 {
                continue;
            }
            for &si in &late_syms {
                for &o in &offsets {
                    late.push((ci, si, o));
                }
            }
        }
        let outs = par_map(&late, |_, (ci, si, o)| {
            let (res, f) = run_sequence_at(&cfgs[*ci], &[&full[*si].1], seed, *o);
            (res.wire.len() as u64, f)
        });
        for ((ci, si, o), (wire, f)) in late.iter().zip(outs.iter()) {
            rep.add("transitions", *wire);
            rep.add("replies_checked", f.replies_checked);
            rep.add("announce_acks", f.acks);
            rep.add("announce_203", f.refusals_203);
            rep.add("idle_node_runs", 1);
            for (tag, sig, what) in &f.items {
                if *tag != "C05" && *tag != "C06" {
                    continue;
                }
                rep.violation(
                    format!("{sig} idle-node"),
                    format!("{what} [cfg {:?}, symbol {:?} after {} ms of idling]", cfgs[*ci], full[*si].0, o),
                    json!({"engine":"E1","check":"C05","cfg":cfg_json(&cfgs[*ci]),"rng_seed":seed,"offset_ms":o,"sequence":[sym_json(&full[*si].1)]}),
                );
            }
        }
    }
    // layer 1: every single symbol of the full alphabet in every configuration
    let mut work: Vec<(usize, Vec<usize>, bool)> = vec![];
    for ci in 0..cfgs.len() {
        for si in 0..full.len() {
            work.push((ci, vec![si], true));
        }
    }
    let l1 = work.len();
    // layer 2: all sequences of length 2 (thorough: 3) over the reduced alphabet
    let maxlen = tier.pick(2, 3);
    for ci in 0..cfgs.len() {
        for a in 0..reduced.len() {
            for b in 0..reduced.len() {
                work.push((ci, vec![a, b], false));
                if maxlen >= 3 {
                    for c in 0..reduced.len() {
                        work.push((ci, vec![a, b, c], false));
                    }
                }
            }
        }
    }
    let outs = par_map(&work, |_, (ci, syms, is_full)| {
        let alpha = if *is_full { &full } else { &reduced };
        let seq: Vec<&Sym> = syms.iter().map(|i| &alpha[*i].1).collect();
        let (res, f) = run_sequence(&cfgs[*ci], &seq, seed);
        (sim::trace_hash(&res, ""), res.wire.len() as u64, f)
    });
    let mut distinct = std::collections::HashSet::new();
    for ((ci, syms, is_full), (h, wire, f)) in work.iter().zip(outs.iter()) {
        distinct.insert(*h);
        rep.add("transitions", *wire);
        rep.add("replies_checked", f.replies_checked);
        rep.add("announce_acks", f.acks);
        rep.add("announce_203", f.refusals_203);
        rep.add("announce_202", f.refusals_202);
        let alpha = if *is_full { &full } else { &reduced };
        for (tag, sig, what) in &f.items {
            // refusing bad tokens with 203 is part of C05's statement too
            if *tag != "C05" && *tag != "C06" {
                continue;
            }
            let labels: Vec<&str> = syms.iter().map(|i| alpha[*i].0.as_str()).collect();
            rep.violation(
                sig.clone(),
                format!("{what} [cfg {:?}, symbols {:?}]", cfgs[*ci], labels),
                json!({"engine":"E1","check":"C05","cfg":cfg_json(&cfgs[*ci]),"rng_seed":seed,"sequence": syms.iter().map(|i| sym_json(&alpha[*i].1)).collect::<Vec<_>>()}),
            );
        }
    }
    rep.set("layer1_single_symbol_runs", l1 as u64);
    rep.set("layer2_sequence_runs", (work.len() - l1) as u64);
    rep.set("configurations", cfgs.len() as u64);
    rep.set("full_alphabet", full.len() as u64);
    rep.set("reduced_alphabet", reduced.len() as u64);
    rep.set("evaluations", work.len() as u64);
    rep.set("states", distinct.len() as u64);
    rep.set("distinct_nontrivial", distinct.len() as u64);
    rep.set("traces_validated_against_impl", work.len() as u64);
    rep.set("exhaustive", true);
    rep.sample(json!({"cfg":cfg_json(&cfgs[0]),"sequence":[sym_json(&full[30].1)],"label":full[30].0}));
    rep.sample(json!({"cfg":cfg_json(&cfgs[13]),"sequence":[sym_json(&reduced[3].1), sym_json(&reduced[7].1)],"labels":[reduced[3].0, reduced[7].0]}));
    rep.set("rule", "One real node in 24 configurations (family x read-only x routing table {0,3,9 contacts} x peer store {empty, 3 peers}); layer 1: every symbol of the full alphabet (4 query kinds x want x port x token class x tid length {0,1,2,8,32} x 3 sources + 7 non-queries) alone; layer 2: every sequence of length 2 (thorough 3) over the reduced alphabet. Oracle per injected datagram: exactly one reply to the source with the same tid and the right shape for well-formed queries to a serving node, zero response/error datagrams otherwise; every response/error the node emits must answer a query. states = distinct normalised traces.");
    rep.assume("well-formed = the query shapes the scripted clients generate (all required arguments present); borderline shapes are not generated");
    rep
}

//! C14 — no datagram can crash, abort or exhaust the node.
//! Decoder sweep (E3) in supervised worker processes + node sweep (E1, in workers).

use crate::benc::{self, Val};
use crate::common::*;
use serde_json::{json, Value};
use std::io::{BufRead, BufReader, Write};
use std::process::{Child, ChildStdin, ChildStdout, Command, Stdio};
use std::sync::atomic::{AtomicUsize, Ordering};
use std::sync::Mutex;

const MAX_ONE_ALLOC: usize = 1 << 20;
const MAX_TOTAL_ALLOC: usize = 4 << 20;
const DEATH_CAP: usize = 24;

/// Bencode token alphabets for the sequence sweep.
pub fn alphabet(name: &str) -> Vec<Vec<u8>> {
    let mut v: Vec<Vec<u8>> = vec![];
    let s = |x: &str| x.as_bytes().to_vec();
    // structure and integers
    for t in ["d", "l", "e", "i0e", "i-1e", "i9223372036854775807e", "i9223372036854775808e", "i-0e", "ie"] {
        v.push(s(t));
    }
    // strings: empty, one byte, KRPC keys and values
    for t in ["0:", "1:x", "1:t", "1:y", "1:q", "1:a", "1:r", "1:e", "2:id", "2:aa"] {
        v.push(s(t));
    }
    let mut twenty = s("20:");
    twenty.extend_from_slice(&[b'k'; 20]);
    v.push(twenty);
    // length prefixes without the bytes they promise
    for t in ["1000:", "1000000:", "4294967296:", "99999999999:", "9223372036854775807:", "9223372036854775808:", "18446744073709551616:"] {
        v.push(s(t));
    }
    if name == "full" {
        for t in ["10000:", "100000000000000:", "18446744073709551615:", "100000000000000000000:", "00:", "01:x", "-1:", "4:ping", "9:find_node", "i255e", "i65536e"] {
            v.push(s(t));
        }
    }
    v
}

pub fn token_seq(alpha: &[Vec<u8>], len: usize, i0: usize, i1: usize, k: u64) -> Vec<u8> {
    let n = alpha.len() as u64;
    let fixed = len.min(2);
    let mut idx = vec![0usize; len];
    idx[0] = i0;
    if len > 1 {
        idx[1] = i1;
    }
    let mut k = k;
    for p in (fixed..len).rev() {
        idx[p] = (k % n) as usize;
        k /= n;
    }
    let mut out = vec![];
    for i in idx {
        out.extend_from_slice(&alpha[i]);
    }
    out
}

// ---------------------------------------------------------------------------------------------
// Structure-aware mutations of valid messages

#[derive(Debug, Clone)]
struct Spans {
    /// [start, colon) of every string length prefix, with the end of the string
    lens: Vec<(usize, usize, usize)>,
    /// [start, end) of every integer including i and e
    ints: Vec<(usize, usize)>,
    /// [start, end) of every value (any type), keys excluded
    values: Vec<(usize, usize)>,
}

fn scan(inp: &[u8], pos: &mut usize, sp: &mut Spans, is_key: bool) {
    let start = *pos;
    match inp[*pos] {
        b'i' => {
            let end = inp[*pos..].iter().position(|&c| c == b'e').unwrap() + *pos + 1;
            sp.ints.push((start, end));
            *pos = end;
        }
        b'l' => {
            *pos += 1;
            while inp[*pos] != b'e' {
                scan(inp, pos, sp, false);
            }
            *pos += 1;
        }
        b'd' => {
            *pos += 1;
            while inp[*pos] != b'e' {
                scan(inp, pos, sp, true);
                scan(inp, pos, sp, false);
            }
            *pos += 1;
        }
        _ => {
            let colon = inp[*pos..].iter().position(|&c| c == b':').unwrap() + *pos;
            let n: usize = std::str::from_utf8(&inp[*pos..colon]).unwrap().parse().unwrap();
            let end = colon + 1 + n;
            sp.lens.push((start, colon, end));
            *pos = end;
        }
    }
    if !is_key {
        sp.values.push((start, *pos));
    }
}

const LEN_SUBST: [&str; 22] = [
    "0", "1", "19", "21", "1000", "1499", "10000", "1000000", "1000000000", "10000000000", "99999999999", "1000000000000", "1000000000000000",
    "2147483648", "4294967296", "9223372036854775807", "9223372036854775808", "18446744073709551615", "18446744073709551616", "100000000000000000000", "00", "-1",
];
const INT_SUBST: [&str; 16] = [
    "i0e", "i-1e", "i-0e", "i255e", "i256e", "i65535e", "i65536e", "i2147483648e", "i9223372036854775807e", "i9223372036854775808e",
    "i-9223372036854775808e", "i-9223372036854775809e", "ie", "i1e1e", "i+1e", "i1.5e",
];
const TYPE_SUBST: [&str; 8] = ["i1e", "0:", "1:x", "le", "de", "li1ee", "d1:xi1ee", "l0:e"];

fn splice(inp: &[u8], a: usize, b: usize, with: &[u8]) -> Vec<u8> {
    let mut o = inp[..a].to_vec();
    o.extend_from_slice(with);
    o.extend_from_slice(&inp[b..]);
    o
}

/// All single mutations of a valid encoding.
pub fn mutations(inp: &[u8]) -> Vec<Vec<u8>> {
    let mut sp = Spans { lens: vec![], ints: vec![], values: vec![] };
    let mut pos = 0;
    scan(inp, &mut pos, &mut sp, false);
    let mut out = vec![];
    for cut in 0..inp.len() {
        out.push(inp[..cut].to_vec());
    }
    for &(a, c, _) in &sp.lens {
        for s in LEN_SUBST {
            out.push(splice(inp, a, c, s.as_bytes()));
        }
    }
    for &(a, b) in &sp.ints {
        for s in INT_SUBST {
            out.push(splice(inp, a, b, s.as_bytes()));
        }
    }
    for &(a, b) in &sp.values {
        for s in TYPE_SUBST {
            out.push(splice(inp, a, b, s.as_bytes()));
        }
    }
    // non UTF-8 where text is expected, trailing garbage
    out.push(splice(inp, inp.len(), inp.len(), b"x"));
    out.push(splice(inp, inp.len(), inp.len(), inp));
    out.retain(|m| m.len() <= 1500);
    out
}

/// Pairs: apply a second mutation (length / integer / type substitutions and a sparse set of
/// truncations) to every single mutant that is still well formed enough to be scanned.
fn pair_mutations(inp: &[u8]) -> Vec<Vec<u8>> {
    let mut out = vec![];
    let mut sp = Spans { lens: vec![], ints: vec![], values: vec![] };
    let mut pos = 0;
    scan(inp, &mut pos, &mut sp, false);
    let mut firsts: Vec<Vec<u8>> = vec![];
    for &(a, b) in &sp.values {
        for s in TYPE_SUBST {
            firsts.push(splice(inp, a, b, s.as_bytes()));
        }
    }
    for &(a, b) in &sp.ints {
        for s in ["i0e", "i9223372036854775807e", "i-1e"] {
            firsts.push(splice(inp, a, b, s.as_bytes()));
        }
    }
    for f in firsts {
        if benc::parse(&f).is_none() {
            continue;
        }
        let mut sp2 = Spans { lens: vec![], ints: vec![], values: vec![] };
        let mut p2 = 0;
        scan(&f, &mut p2, &mut sp2, false);
        for &(a, c, _) in &sp2.lens {
            for s in LEN_SUBST {
                out.push(splice(&f, a, c, s.as_bytes()));
            }
        }
        for &(a, b) in &sp2.values {
            for s in TYPE_SUBST {
                out.push(splice(&f, a, b, s.as_bytes()));
            }
        }
        for cut in (0..f.len()).step_by(3) {
            out.push(f[..cut].to_vec());
        }
    }
    out.retain(|m| m.len() <= 1500);
    out
}

/// Nesting family: lists / dictionaries of every depth that fits 1500 bytes, closed and unclosed,
/// at top level, under an unknown key, inside `a` and inside `r`.
pub fn nesting_inputs(step: usize) -> Vec<Vec<u8>> {
    let mut out = vec![];
    let id = [b'i'; 20];
    let frames: Vec<(Vec<u8>, Vec<u8>)> = vec![
        (vec![], vec![]),
        (b"d1:x".to_vec(), b"e".to_vec()),
        (b"d1:t2:aa1:y1:q1:q4:ping1:ad2:id20:".iter().chain(id.iter()).chain(b"1:x".iter()).copied().collect(), b"ee".to_vec()),
        (b"d1:ad1:x".to_vec(), b"2:id20:".iter().chain(id.iter()).chain(b"e1:q4:ping1:t2:aa1:y1:qe".iter()).copied().collect()),
        (b"d1:rd2:id20:".iter().chain(id.iter()).chain(b"1:x".iter()).copied().collect(), b"e1:t2:aa1:y1:re".to_vec()),
        (b"d1:rd6:values".to_vec(), b"e1:t2:aa1:y1:re".to_vec()),
        (b"d1:e".to_vec(), b"1:t2:aa1:y1:ee".to_vec()),
    ];
    for (pre, post) in &frames {
        for (open, close, per) in [(&b"l"[..], &b"e"[..], 1usize), (&b"d1:x"[..], &b"e"[..], 4)] {
            let room = 1500usize.saturating_sub(pre.len());
            let mut depth = 1;
            while depth * per <= room {
                // unclosed
                let mut v = pre.clone();
                for _ in 0..depth {
                    v.extend_from_slice(open);
                }
                out.push(v.clone());
                // closed (if it fits)
                let mut c = v;
                if per == 4 {
                    c.extend_from_slice(b"i0e");
                }
                for _ in 0..depth {
                    c.extend_from_slice(close);
                }
                c.extend_from_slice(post);
                if c.len() <= 1500 {
                    out.push(c);
                }
                depth += if depth < 64 { 1 } else { step };
            }
            // and the deepest that fits exactly
            let depth = room / per;
            let mut v = pre.clone();
            for _ in 0..depth {
                v.extend_from_slice(open);
            }
            out.push(v);
        }
    }
    out
}

// ---------------------------------------------------------------------------------------------
// Supervisor

struct Worker {
    child: Child,
    stdin: ChildStdin,
    stdout: BufReader<ChildStdout>,
}

fn spawn_worker(bin: &str) -> Worker {
    let mut child = Command::new(bin)
        .stdin(Stdio::piped())
        .stdout(Stdio::piped())
        .stderr(Stdio::null())
        .spawn()
        .unwrap_or_else(|e| {
            eprintln!("machinery error: cannot start worker {bin}: {e}");
            std::process::exit(2)
        });
    let stdin = child.stdin.take().unwrap();
    let stdout = BufReader::new(child.stdout.take().unwrap());
    Worker { child, stdin, stdout }
}

#[derive(Default, Clone, Debug)]
pub struct JobOut {
    pub count: u64,
    pub ok: u64,
    pub err: u64,
    pub panics: u64,
    pub max_alloc: usize,
    pub max_total: usize,
    pub worst: Vec<u8>,
    pub first_panic: Vec<u8>,
    /// (index within job, exit description)
    pub deaths: Vec<(u64, String)>,
    pub extra: Vec<String>,
}

enum Reply {
    Done(JobOut),
    Died(Option<u64>, String),
}

fn send_job(w: &mut Worker, line: &str) -> Reply {
    if writeln!(w.stdin, "{line}").and_then(|_| w.stdin.flush()).is_err() {
        let st = w.child.wait().map(|s| s.to_string()).unwrap_or_default();
        return Reply::Died(None, st);
    }
    let mut last_i = None;
    let mut extra = vec![];
    loop {
        let mut l = String::new();
        match w.stdout.read_line(&mut l) {
            Ok(0) | Err(_) => {
                let st = w.child.wait().map(|s| s.to_string()).unwrap_or_default();
                return Reply::Died(last_i, st);
            }
            Ok(_) => {}
        }
        let l = l.trim();
        if let Some(i) = l.strip_prefix("H ") {
            let k: Option<u64> = i.parse().ok();
            let _ = w.child.wait();
            return Reply::Died(k, "hang: 20 s of CPU time (or 300 s of wall-clock time) on one input without finishing".to_string());
        } else if let Some(i) = l.strip_prefix("I ") {
            last_i = i.parse().ok();
        } else if let Some(x) = l.strip_prefix("X ") {
            extra.push(x.to_string());
        } else if let Some(r) = l.strip_prefix("R ") {
            let p: Vec<&str> = r.split_whitespace().collect();
            let un = |s: &str| if s == "-" { vec![] } else { unhex(s) };
            return Reply::Done(JobOut {
                count: p[0].parse().unwrap_or(0),
                ok: p[1].parse().unwrap_or(0),
                err: p[2].parse().unwrap_or(0),
                panics: p[3].parse().unwrap_or(0),
                max_alloc: p[4].parse().unwrap_or(0),
                max_total: p[5].parse().unwrap_or(0),
                worst: un(p.get(6).copied().unwrap_or("-")),
                first_panic: un(p.get(7).copied().unwrap_or("-")),
                deaths: vec![],
                extra,
            });
        } else if l.starts_with("E ") {
            eprintln!("machinery error: worker says {l} for job {line}");
            std::process::exit(2);
        }
    }
}

/// Job description understood by the worker; `start` lets a job resume after a fatal input.
#[derive(Clone, Debug)]
pub enum Job {
    Tokens { alpha: String, len: usize, i0: usize, i1: usize },
    File { kind: char, path: String, from: u64, to: u64 },
}

impl Job {
    fn line(&self, start: u64, careful: bool) -> String {
        let c = if careful { " careful" } else { "" };
        match self {
            Job::Tokens { alpha, len, i0, i1 } => format!("T {alpha} {len} {i0} {i1} {start}{c}"),
            Job::File { kind: 'F', path, from, to } => {
                let off = RECORD_OFFSETS.lock().unwrap().get((from + start) as usize).copied().unwrap_or(0);
                format!("F {path} {} {to} @{off}{c}", from + start)
            }
            Job::File { kind, path, from, to } => format!("{kind} {path} {} {to}{c}", from + start),
        }
    }
    fn size(&self, alpha_len: usize) -> u64 {
        match self {
            Job::Tokens { len, .. } => (alpha_len as u64).pow(len.saturating_sub(2) as u32),
            Job::File { from, to, .. } => to - from,
        }
    }
}

static DEATHS: AtomicUsize = AtomicUsize::new(0);

/// Run one job to completion, restarting the worker after every fatal input.
fn run_job(bin: &str, w: &mut Option<Worker>, job: &Job, alpha_len: usize) -> JobOut {
    let mut total = JobOut::default();
    let mut start = 0u64;
    let size = job.size(alpha_len);
    let mut careful = false;
    while start < size {
        if w.is_none() {
            *w = Some(spawn_worker(bin));
        }
        match send_job(w.as_mut().unwrap(), &job.line(start, careful)) {
            Reply::Done(o) => {
                total.count += o.count;
                total.ok += o.ok;
                total.err += o.err;
                total.panics += o.panics;
                if o.max_alloc > total.max_alloc {
                    total.worst = o.worst.clone();
                }
                total.max_alloc = total.max_alloc.max(o.max_alloc);
                total.max_total = total.max_total.max(o.max_total);
                if total.first_panic.is_empty() {
                    total.first_panic = o.first_panic;
                }
                total.extra.extend(o.extra);
                break;
            }
            Reply::Died(idx, status) => {
                *w = None;
                if !careful && !(status.starts_with("hang") && idx.is_some()) {
                    // find the culprit: same range again, one acknowledged input at a time
                    careful = true;
                    continue;
                }
                let k = match idx {
                    Some(k) => k,
                    None => {
                        eprintln!("machinery error: worker died before its first input ({status}) on {:?}", job);
                        std::process::exit(2);
                    }
                };
                // `k` is the absolute index within the job's enumeration
                total.deaths.push((k, status));
                total.count += 1;
                // (never backwards, whatever index a dying worker reported)
                start = (k + 1).saturating_sub(job_base(job)).max(start + 1);
                if DEATHS.fetch_add(1, Ordering::Relaxed) + 1 >= DEATH_CAP {
                    break;
                }
            }
        }
    }
    total
}

fn job_base(job: &Job) -> u64 {
    match job {
        Job::Tokens { .. } => 0,
        Job::File { from, .. } => *from,
    }
}

pub fn run_jobs(bin: &str, jobs: &[Job], alpha_len: usize) -> Vec<JobOut> {
    let next = AtomicUsize::new(0);
    let out: Mutex<Vec<(usize, JobOut)>> = Mutex::new(vec![]);
    std::thread::scope(|s| {
        for _ in 0..threads() {
            s.spawn(|| {
                let mut w: Option<Worker> = None;
                loop {
                    let i = next.fetch_add(1, Ordering::Relaxed);
                    if i >= jobs.len() || DEATHS.load(Ordering::Relaxed) >= DEATH_CAP {
                        break;
                    }
                    let o = run_job(bin, &mut w, &jobs[i], alpha_len);
                    out.lock().unwrap().push((i, o));
                    // node-sweep jobs run hundreds of simulated nodes each: a fresh worker per job keeps the
                    // worker's footprint (1 GiB address-space limit) independent of how many jobs there are
                    if matches!(&jobs[i], Job::File { kind: 'N', .. }) {
                        if let Some(mut old) = w.take() {
                            drop(old.stdin);
                            let _ = old.child.wait();
                        }
                    }
                }
                if let Some(mut w) = w {
                    drop(w.stdin);
                    let _ = w.child.wait();
                }
            });
        }
    });
    let mut v = out.into_inner().unwrap();
    v.sort_by_key(|(i, _)| *i);
    let mut res = vec![JobOut::default(); jobs.len()];
    for (i, o) in v {
        res[i] = o;
    }
    res
}

/// byte offset of every record of the records file written last (workers seek instead of reading it all)
static RECORD_OFFSETS: Mutex<Vec<u64>> = Mutex::new(Vec::new());

fn write_records(path: &str, inputs: &[Vec<u8>]) {
    let mut buf = Vec::with_capacity(inputs.iter().map(|i| i.len() + 4).sum());
    let mut offsets = Vec::with_capacity(inputs.len() + 1);
    for i in inputs {
        offsets.push(buf.len() as u64);
        buf.extend_from_slice(&(i.len() as u32).to_le_bytes());
        buf.extend_from_slice(i);
    }
    offsets.push(buf.len() as u64);
    *RECORD_OFFSETS.lock().unwrap() = offsets;
    std::fs::write(path, buf).unwrap_or_else(|e| {
        eprintln!("machinery error: cannot write {path}: {e}");
        std::process::exit(2)
    });
}

pub fn classify(input: &[u8]) -> &'static str {
    // deepest nesting
    let mut depth = 0usize;
    let mut maxd = 0usize;
    let mut pos = 0usize;
    let mut huge = false;
    while pos < input.len() {
        match input[pos] {
            b'd' | b'l' => {
                depth += 1;
                maxd = maxd.max(depth);
                pos += 1;
            }
            b'e' => {
                depth = depth.saturating_sub(1);
                pos += 1;
            }
            b'i' => match input[pos..].iter().position(|&c| c == b'e') {
                Some(n) => pos += n + 1,
                None => break,
            },
            b'0'..=b'9' => match input[pos..].iter().position(|&c| c == b':') {
                Some(n) => {
                    let digits = std::str::from_utf8(&input[pos..pos + n]).unwrap_or("");
                    match digits.parse::<u128>() {
                        Ok(l) if l as usize as u128 == l && (l as usize) <= input.len() - (pos + n + 1) => pos += n + 1 + l as usize,
                        _ => {
                            huge = true;
                            break;
                        }
                    }
                }
                None => break,
            },
            _ => break,
        }
    }
    if huge {
        "string-length-exceeds-input"
    } else if maxd > 100 {
        "deep-nesting"
    } else {
        "other"
    }
}

fn judge(rep: &mut Report, build: &str, family: &str, jobs: &[Job], outs: &[JobOut], alpha: &[Vec<u8>], file_inputs: Option<&[Vec<u8>]>) {
    for (job, o) in jobs.iter().zip(outs) {
        rep.add("evaluations", o.count);
        rep.add(&format!("decoded_ok_{build}"), o.ok);
        rep.add(&format!("decoded_err_{build}"), o.err);
        let input_at = |k: u64| -> Vec<u8> {
            match job {
                Job::Tokens { len, i0, i1, .. } => token_seq(alpha, *len, *i0, *i1, k),
                Job::File { .. } => file_inputs.map(|f| f[k as usize].clone()).unwrap_or_default(),
            }
        };
        for (k, status) in &o.deaths {
            let inp = input_at(*k);
            rep.violation(
                format!("decoder-kills-process class={} build={build}", classify(&inp)),
                format!("decoding {:?} ({} bytes, {family}) terminates the process: {status}", String::from_utf8_lossy(&inp[..inp.len().min(60)]), inp.len()),
                json!({"engine":"E3","check":"C14","part":"decoder","build":build,"bytes":hex(&inp)}),
            );
        }
        if o.panics > 0 {
            let inp = &o.first_panic;
            rep.violation(
                format!("decoder-panics class={} build={build}", classify(inp)),
                format!("decoding {:?} ({} bytes, {family}) panics", String::from_utf8_lossy(&inp[..inp.len().min(60)]), inp.len()),
                json!({"engine":"E3","check":"C14","part":"decoder","build":build,"bytes":hex(inp)}),
            );
        }
        if o.max_alloc > MAX_ONE_ALLOC || o.max_total > MAX_TOTAL_ALLOC {
            let inp = &o.worst;
            rep.violation(
                format!("decoder-allocates-out-of-proportion class={} build={build}", classify(inp)),
                format!("decoding {:?} ({} bytes, {family}) requests {} bytes at once / {} in total", String::from_utf8_lossy(&inp[..inp.len().min(60)]), inp.len(), o.max_alloc, o.max_total),
                json!({"engine":"E3","check":"C14","part":"decoder","build":build,"bytes":hex(inp)}),
            );
        }
        let cur = rep.get("max_single_allocation_bytes");
        rep.set("max_single_allocation_bytes", cur.max(o.max_alloc as u64));
        let cur = rep.get("max_total_allocation_bytes");
        rep.set("max_total_allocation_bytes", cur.max(o.max_total as u64));
    }
}

pub fn worker_bin(build: &str) -> String {
    format!("{VERIF_ROOT}/target/{}/vworker", if build == "dev" { "debug" } else { "release" })
}

pub fn replay(v: &Value) -> i32 {
    if v["part"] == "node" {
        return node_replay(v);
    }
    let bytes = unhex(v["bytes"].as_str().unwrap_or(""));
    let build = v["build"].as_str().unwrap_or("release");
    std::fs::create_dir_all(format!("{VERIF_ROOT}/target/c14")).ok();
    let path = format!("{VERIF_ROOT}/target/c14/replay.bin");
    write_records(&path, &[bytes.clone()]);
    let job = Job::File { kind: 'F', path, from: 0, to: 1 };
    let mut w = None;
    let o = run_job(&worker_bin(build), &mut w, &job, 0);
    println!("input ({} bytes): {:?}", bytes.len(), String::from_utf8_lossy(&bytes[..bytes.len().min(80)]));
    println!("build={build} deaths={:?} panics={} max_alloc={} total_alloc={} ok={} err={}", o.deaths, o.panics, o.max_alloc, o.max_total, o.ok, o.err);
    if !o.deaths.is_empty() || o.panics > 0 || o.max_alloc > MAX_ONE_ALLOC || o.max_total > MAX_TOTAL_ALLOC { 1 } else { 0 }
}

pub fn decoder_sweep(tier: Tier, rep: &mut Report) {
    std::fs::create_dir_all(format!("{VERIF_ROOT}/target/c14")).ok();
    for build in ["release", "dev"] {
        if !std::path::Path::new(&worker_bin(build)).exists() {
            eprintln!("machinery error: {} missing (./check builds it)", worker_bin(build));
            std::process::exit(2);
        }
    }
    // (a) token sequences
    for build in ["release", "dev"] {
        let (alpha_name, max_len) = match (tier, build) {
            (Tier::Quick, "release") => ("base", 5),
            (Tier::Quick, _) => ("base", 4),
            (Tier::Thorough, "release") => ("full", 5),
            (Tier::Thorough, _) => ("full", 4),
        };
        let alpha = alphabet(alpha_name);
        let n = alpha.len();
        let mut jobs = vec![];
        for len in 1..=max_len {
            for i0 in 0..n {
                for i1 in 0..(if len > 1 { n } else { 1 }) {
                    jobs.push(Job::Tokens { alpha: alpha_name.into(), len, i0, i1 });
                }
            }
        }
        if tier == Tier::Thorough && build == "release" {
            // length 6 over the base alphabet
            let base = alphabet("base");
            let mut j6 = vec![];
            for i0 in 0..base.len() {
                for i1 in 0..base.len() {
                    j6.push(Job::Tokens { alpha: "base".into(), len: 6, i0, i1 });
                }
            }
            let outs = run_jobs(&worker_bin(build), &j6, base.len());
            judge(rep, build, "token sequence", &j6, &outs, &base, None);
            rep.add("token_sequences", outs.iter().map(|o| o.count).sum());
        }
        let outs = run_jobs(&worker_bin(build), &jobs, n);
        judge(rep, build, "token sequence", &jobs, &outs, &alpha, None);
        rep.add("token_sequences", outs.iter().map(|o| o.count).sum());
        rep.set(&format!("token_alphabet_{build}"), json!({"name":alpha_name,"tokens":n,"max_len":max_len}));
    }
    // (b) mutations of the valid corpus, (c) nesting
    let corpus = super::c13::corpus(Tier::Quick);
    let mut by_label: Vec<(String, Vec<u8>)> = vec![];
    for (label, m) in &corpus {
        if !by_label.iter().any(|(l, _)| l == label) {
            by_label.push((label.clone(), benc::reference_encode(m)));
        }
    }
    let mut inputs: Vec<Vec<u8>> = vec![];
    for (_, enc) in &by_label {
        inputs.extend(mutations(enc));
    }
    let singles = inputs.len();
    if tier == Tier::Thorough {
        for (_, enc) in by_label.iter().filter(|(_, e)| e.len() < 400) {
            inputs.extend(pair_mutations(enc));
        }
        // every corpus message under every single mutation, too
        let mut seen = std::collections::HashSet::new();
        for (_, m) in corpus.iter().step_by(5) {
            let enc = benc::reference_encode(m);
            if seen.insert(hash64(&enc)) && enc.len() < 300 {
                inputs.extend(mutations(&enc));
            }
        }
    }
    // malformed-but-well-framed messages: every node-list length residue, wrong id lengths, missing arguments
    for (_, bytes) in super::c13::rejections() {
        inputs.push(bytes);
    }
    // text fields with a multi-byte character at every offset (length caps / cuts inside a character)
    let mut text_n = 0u64;
    {
        let ks: Vec<usize> = (0..=300).chain(500..=520).chain(1015..=1030).collect();
        for ch in ["\u{e9}", "\u{20ac}", "\u{1F40E}"] {
            for &k in &ks {
                let mut text = "a".repeat(k);
                text.push_str(ch);
                text.push_str("zz");
                inputs.push(Val::dict(vec![("t", Val::s("aa")), ("y", Val::s("e")), ("e", Val::List(vec![Val::Int(201), Val::s(&text)]))]).canon().encode());
                text_n += 1;
                if k <= 64 {
                    inputs.push(Val::dict(vec![("t", Val::s("aa")), ("y", Val::s("q")), ("q", Val::s(&text)), ("a", Val::dict(vec![("id", Val::b(&[b'i'; 20]))]))]).canon().encode());
                    inputs.push(Val::dict(vec![("t", Val::s("aa")), ("y", Val::s("r")), ("v", Val::s(&text)), ("r", Val::dict(vec![("id", Val::b(&[b'i'; 20]))]))]).canon().encode());
                    text_n += 2;
                }
            }
        }
    }
    rep.set("text_boundary_inputs_generated", text_n);
    let nest = nesting_inputs(tier.pick(7, 1));
    let nest_n = nest.len();
    inputs.extend(nest);
    // unknown junk value classes
    for v in [Val::s("x"), Val::Int(1)] {
        inputs.push(v.encode());
    }
    inputs.sort();
    inputs.dedup();
    let path = format!("{VERIF_ROOT}/target/c14/mutants.bin");
    write_records(&path, &inputs);
    rep.set("message_shapes_mutated", by_label.len() as u64);
    rep.set("single_mutations_generated", singles as u64);
    rep.set("nesting_inputs_generated", nest_n as u64);
    rep.set("mutation_and_nesting_inputs_distinct", inputs.len() as u64);
    for build in ["release", "dev"] {
        let chunk = 2000u64;
        let mut jobs = vec![];
        let mut from = 0u64;
        while from < inputs.len() as u64 {
            let to = (from + chunk).min(inputs.len() as u64);
            jobs.push(Job::File { kind: 'F', path: path.clone(), from, to });
            from = to;
        }
        let outs = run_jobs(&worker_bin(build), &jobs, 0);
        judge(rep, build, "mutation/nesting", &jobs, &outs, &[], Some(&inputs));
    }
    rep.sample(json!({"family":"token sequence","input":"d1:t99999999999:"}));
    rep.sample(json!({"family":"mutation","input": String::from_utf8_lossy(&inputs[inputs.len() / 2]).to_string()}));
    rep.sample(json!({"family":"nesting","input":"d1:x + 1490 x 'l'"}));
    let _ = std::fs::remove_file(&path);
    if DEATHS.load(Ordering::Relaxed) >= DEATH_CAP {
        rep.set("capped", format!("stopped after {DEATH_CAP} fatal inputs; counts below that are partial"));
    }
}

// ---------------------------------------------------------------------------------------------
// Node sweep: sequences of datagrams into a running serving node (executed inside the workers)

/// Representative datagrams: valid traffic plus one member of every malformed family.
pub fn node_inputs() -> Vec<(String, Vec<u8>)> {
    use crate::sim::krpc;
    let id = [b'n'; 20];
    let mut v: Vec<(String, Vec<u8>)> = vec![];
    v.push(("valid ping".into(), krpc::ping(b"aa", &id)));
    v.push(("valid find_node".into(), krpc::find_node(b"ab", &id, &[b't'; 20], Some(&["n4", "n6"]))));
    v.push(("valid get_peers".into(), krpc::get_peers(b"ac", &id, &[b'h'; 20], None)));
    v.push(("announce bad token".into(), krpc::announce_peer(b"ad", &id, &[b'h'; 20], b"nope", Some(1))));
    v.push(("valid response".into(), krpc::response(b"12345678", &id, Some(b"tok"), None, &[])));
    v.push(("valid error".into(), krpc::error(b"ae", 201, "x")));
    v.push(("empty datagram".into(), vec![]));
    v.push(("1500 x 0xff".into(), vec![0xff; 1500]));
    v.push(("length prefix 99999999999".into(), b"d1:t99999999999:".to_vec()));
    v.push(("length prefix 2^63".into(), b"d1:t9223372036854775808:".to_vec()));
    v.push(("length prefix 2^64".into(), b"d1:t18446744073709551616:".to_vec()));
    v.push(("length prefix 10^9 in args".into(), b"d1:ad2:id1000000000:e1:q4:ping1:t2:aa1:y1:qe".to_vec()));
    v.push(("1500 x l".into(), vec![b'l'; 1500]));
    let mut deep = b"d1:ad1:x".to_vec();
    deep.extend(std::iter::repeat(b'l').take(1490));
    v.push(("deep list inside a".into(), deep));
    let mut deepd = vec![];
    for _ in 0..370 {
        deepd.extend_from_slice(b"d1:x");
    }
    v.push(("deep dict".into(), deepd));
    let mut deepr = b"d1:rd6:values".to_vec();
    deepr.extend(std::iter::repeat(b'l').take(1480));
    v.push(("deep list inside values".into(), deepr));
    v.push(("huge integer".into(), b"d1:eli99999999999999999999999e1:xe1:t2:aa1:y1:ee".to_vec()));
    v.push(("negative port".into(), b"d1:ad2:id20:nnnnnnnnnnnnnnnnnnnn9:info_hash20:hhhhhhhhhhhhhhhhhhhh4:porti-1e5:token1:xe1:q13:announce_peer1:t2:aa1:y1:qe".to_vec()));
    v.push(("wrong types".into(), b"d1:ai1e1:qli1ee1:tde1:yi0ee".to_vec()));
    v.push(("non utf-8 method".into(), b"d1:ad2:id20:nnnnnnnnnnnnnnnnnnnne1:q4:\xff\xfe\xfd\xfc1:t2:aa1:y1:qe".to_vec()));
    let q = krpc::get_peers(b"af", &id, &[b'h'; 20], None);
    v.push(("truncated query".into(), q[..q.len() / 2].to_vec()));
    v.push(("query twice in one datagram".into(), [q.clone(), q.clone()].concat()));
    v.push(("nodes of odd length".into(), b"d1:rd2:id20:nnnnnnnnnnnnnnnnnnnn5:nodes27:aaaaaaaaaaaaaaaaaaaaaaaaaaae1:t8:123456781:y1:re".to_vec()));
    v.push(("tid of 1400 bytes".into(), krpc::ping(&vec![b'T'; 1400], &id)));
    v.push(("get_peers with a tid of 1395 bytes".into(), krpc::get_peers(&vec![b'U'; 1395], &id, &[b'h'; 20], None)));
    v.push(("find_node with a tid of 1380 bytes".into(), krpc::find_node(&vec![b'V'; 1380], &id, &[b't'; 20], None)));
    v.push(("nodes of 30 bytes (entry cut short)".into(), b"d1:rd2:id20:nnnnnnnnnnnnnnnnnnnn5:nodes30:aaaaaaaaaaaaaaaaaaaaaaaaaaaaaae1:t8:123456781:y1:re".to_vec()));
    v.push(("nodes6 of 45 bytes".into(), b"d1:rd2:id20:nnnnnnnnnnnnnnnnnnnn6:nodes645:aaaaaaaaaaaaaaaaaaaaaaaaaaaaaaaaaaaaaaaaaaaaae1:t8:123456781:y1:re".to_vec()));
    v
}

pub fn node_records(maxlen: usize) -> Vec<Vec<(u8, usize)>> {
    // sequences of (source index, input index)
    let n = node_inputs().len();
    let mut out: Vec<Vec<(u8, usize)>> = vec![];
    // source 2 is an address no reply can be sent to (UDP source port 0: send_to fails)
    for a in 0..n {
        out.push(vec![(2, a)]);
        if maxlen >= 2 {
            for b in 0..n {
                out.push(vec![(2, a), (1, b)]);
            }
        }
    }
    for a in 0..n {
        for sa in 0..2u8 {
            out.push(vec![(sa, a)]);
            if maxlen >= 2 {
                for b in 0..n {
                    out.push(vec![(sa, a), (1 - sa, b)]);
                    if maxlen >= 3 {
                        for c in 0..n {
                            out.push(vec![(sa, a), (1 - sa, b), (sa, c)]);
                        }
                    }
                }
            }
        }
    }
    out
}

fn run_node_record(seq: &[(u8, usize)], inputs: &[(String, Vec<u8>)]) -> Option<(String, String)> {
    use crate::props::single::{self, NodeCfg};
    use crate::sim::{Action, ApiKind, When};
    let cfg = NodeCfg { v6: false, read_only: false, table: 3, store: false };
    let mut b = single::build(&cfg, 0, 1);
    let node = single::node_addr(false);
    // in half of the sequences the node's contacts send every reply twice (valid datagrams, duplicated)
    if seq[0].1 % 2 == 0 {
        let universe: std::sync::Arc<Vec<([u8; 20], std::net::SocketAddr)>> = std::sync::Arc::new((0..3).map(|i| (single::contact_id(i), single::contact_addr(i, false))).collect());
        for p in b.peers.iter_mut() {
            for i in 0..3 {
                if p.addr() == single::contact_addr(i, false) {
                    let mut r = crate::sim::peers::Responder::new(single::contact_addr(i, false), single::contact_id(i), universe.clone());
                    r.duplicate_replies = true;
                    if seq[0].1 % 4 == 0 {
                        // well-formed answers that list one silent address under two different ids
                        let mute: std::net::SocketAddr = "10.0.1.250:6881".parse().unwrap();
                        let (mut a, mut b) = (single::contact_id(40), single::contact_id(41));
                        a[0] = 0x15;
                        b[0] = 0x16;
                        r.node_list = crate::sim::peers::NodeList::ClosestPlus(vec![(a, mute), (b, mute)]);
                    }
                    *p = Box::new(r);
                }
            }
        }
    }
    let mut t = b.ready_ms;
    let unreachable: std::net::SocketAddr = "10.9.0.3:0".parse().unwrap();
    b.sc.fail_dst = vec![unreachable];
    for (src, i) in seq {
        let from = if *src == 2 { unreachable } else { single::client_addr(*src as usize) };
        b.sc.actions.push((When::At(t), Action::Inject { from, to: node, bytes: inputs[*i].1.clone(), tag: String::new() }));
        t += 10;
    }
    t += 100;
    b.sc.actions.push((When::At(t), Action::PeerCommand { peer: single::client_addr(1), cmd: format!("ping tid={}", hex(b"alive?!!")) }));
    b.sc.actions.push((When::At(t), Action::GetState { node: 0, tag: "state".into() }));
    b.sc.actions.push((When::At(t), Action::LoadContacts { node: 0, tag: "contacts".into() }));
    b.sc.actions.push((When::At(t), Action::LocalAddr { node: 0, tag: "addr".into() }));
    b.sc.actions.push((When::At(t), Action::Search { node: 0, info_hash: btdht::InfoHash::sha1(b"c14"), announce: false, tag: "search".into() }));
    b.sc.horizon_ms = t + 8_000;
    let res = single::run_built(b);
    let labels: Vec<&str> = seq.iter().map(|(_, i)| inputs[*i].0.as_str()).collect();
    if !res.panics.is_empty() {
        return Some(("node-task-panics".into(), format!("after {:?}: {}", labels, res.panics[0].lines().next().unwrap_or(""))));
    }
    let pong = res.wire.iter().filter(|d| d.src == node && d.dst == single::client_addr(1)).filter(|d| crate::sim::krpc::parse(&d.bytes).tid == b"alive?!!").count();
    if pong != 1 {
        return Some(("node-stops-answering-queries".into(), format!("after {:?} a ping gets {pong} replies", labels)));
    }
    for tag in ["state", "contacts", "addr", "search"] {
        let ok = res.api.iter().any(|e| {
            e.tag == tag
                && match &e.kind {
                    ApiKind::State { running, .. } => *running,
                    ApiKind::Contacts { .. } => true,
                    ApiKind::LocalAddr(ok) => *ok,
                    ApiKind::End => true,
                    _ => false,
                }
        });
        if !ok {
            return Some(("api-call-does-not-complete".into(), format!("after {:?}: {tag}", labels)));
        }
    }
    None
}

pub static NODE_PROGRESS: std::sync::atomic::AtomicU64 = std::sync::atomic::AtomicU64::new(0);
pub static NODE_CURRENT: std::sync::atomic::AtomicU64 = std::sync::atomic::AtomicU64::new(0);

/// Worker side of the node sweep: records [from, to) of `node_records(maxlen)` where the path field carries maxlen.
pub fn node_job(maxlen: &str, from: u64, to: u64, careful: bool) -> String {
    let maxlen: usize = maxlen.parse().unwrap_or(1);
    let inputs = node_inputs();
    let recs = node_records(maxlen);
    let mut count = 0u64;
    let mut ok = 0u64;
    let mut bad = 0u64;
    use std::io::Write;
    NODE_CURRENT.store(from, Ordering::Relaxed);
    for k in from..to.min(recs.len() as u64) {
        if careful {
            let mut o = std::io::stdout().lock();
            let _ = writeln!(o, "I {k}");
            let _ = o.flush();
        }
        count += 1;
        NODE_CURRENT.store(k, Ordering::Relaxed);
        NODE_PROGRESS.fetch_add(1, Ordering::Relaxed);
        match run_node_record(&recs[k as usize], &inputs) {
            None => ok += 1,
            Some((sig, what)) => {
                bad += 1;
                let mut o = std::io::stdout().lock();
                let _ = writeln!(o, "X {k} {sig}|{what}");
            }
        }
    }
    format!("R {count} {ok} {bad} 0 0 0 - -")
}

pub fn node_replay(v: &Value) -> i32 {
    let inputs = node_inputs();
    let seq: Vec<(u8, usize)> = v["sequence"].as_array().map(|a| a.iter().map(|x| (x[0].as_u64().unwrap() as u8, x[1].as_u64().unwrap() as usize)).collect()).unwrap_or_default();
    // in-process on a 2 MiB stack; a crash of this process is the reproduction
    let h = std::thread::Builder::new().stack_size(2 << 20).spawn(move || run_node_record(&seq, &inputs)).unwrap();
    match h.join() {
        Ok(None) => 0,
        Ok(Some((s, w))) => {
            println!("VIOLATION {s}: {w}");
            1
        }
        Err(_) => {
            println!("VIOLATION node-sweep-thread-panicked");
            1
        }
    }
}

pub fn node_sweep(tier: Tier, rep: &mut Report) {
    let maxlen = tier.pick(2, 3);
    let recs = node_records(maxlen);
    let inputs = node_inputs();
    for build in ["release", "dev"] {
        let ml = if build == "dev" { maxlen - 1 } else { maxlen };
        let total = node_records(ml).len() as u64;
        let chunk = 200u64;
        let mut jobs = vec![];
        let mut from = 0;
        while from < total {
            jobs.push(Job::File { kind: 'N', path: ml.to_string(), from, to: (from + chunk).min(total) });
            from += chunk;
        }
        let outs = run_jobs(&worker_bin(build), &jobs, 0);
        let recs_b = node_records(ml);
        for (job, o) in jobs.iter().zip(outs.iter()) {
            rep.add("evaluations", o.count);
            rep.add(&format!("node_sequences_{build}"), o.count);
            for x in &o.extra {
                let mut it = x.splitn(2, ' ');
                let k: usize = it.next().unwrap_or("0").parse().unwrap_or(0);
                let rest = it.next().unwrap_or("");
                let (sig, what) = rest.split_once('|').unwrap_or((rest, ""));
                rep.violation(format!("node {sig} build={build}"), what.to_string(), json!({"engine":"E1","check":"C14","part":"node","build":build,"sequence": recs_b[k].iter().map(|(s, i)| json!([s, i])).collect::<Vec<_>>()}));
            }
            for (k, status) in &o.deaths {
                let seq = &recs_b[*k as usize];
                let labels: Vec<&str> = seq.iter().map(|(_, i)| inputs[*i].0.as_str()).collect();
                rep.violation(format!("node process-dies build={build}"), format!("a node receiving {:?} takes the process down: {status}", labels), json!({"engine":"E1","check":"C14","part":"node","build":build,"sequence": seq.iter().map(|(s, i)| json!([s, i])).collect::<Vec<_>>()}));
            }
            let _ = job;
        }
    }
    rep.set("node_sweep_inputs", inputs.len() as u64);
    rep.set("node_sweep_max_sequence_length", maxlen as u64);
    rep.sample(json!({"family":"node sweep","sequence":[inputs[8].0, inputs[0].0]}));
    let _ = recs;
}

pub fn run(tier: Tier) -> Report {
    let mut rep = Report::new("C14", "fault_enumeration", tier);
    decoder_sweep(tier, &mut rep);
    node_sweep(tier, &mut rep);
    let ev = rep.get("evaluations");
    let ok = rep.get("decoded_ok_release") + rep.get("decoded_ok_dev");
    rep.set("distinct_nontrivial", ev.min(rep.get("token_sequences") / 2 + rep.get("mutation_and_nesting_inputs_distinct")));
    let _ = ok;
    rep.set("states", ev);
    rep.set("transitions", ev);
    rep.set("traces_validated_against_impl", ev);
    rep.set("rule", "Inputs: (a) every sequence of <= N tokens over the stated bencode token alphabet; (b) every valid message shape of the C13 corpus under every single (thorough: also pairs of) structure-aware mutation (truncation at every offset, every length prefix x 22 magnitudes, every integer x 16 limit values, every value x 8 other types); (c) list and dictionary nesting of every depth that fits 1500 bytes in 7 framings, closed and unclosed. Each input is decoded by Message::decode on a 2 MiB-stack thread of a worker process with a 1 GiB address-space limit and a counting allocator, in the release and the dev build. Oracle: worker survives, no panic, largest single allocation <= 1 MiB, total <= 4 MiB. distinct_nontrivial: distinct inputs (token sequences are distinct per build; halved because both builds see them).");
    rep.assume("the 1500-byte bound is the receive buffer of socket.rs; inputs above it are not generated");
    rep.assume("dev build = cargo's default dev profile with opt-level 0; release = the harness release profile");
    rep
}

//! E1 bindings of C06 (tokens through the handler) and C07 (peer store through the handler):
//! all short sequences of client actions and time jumps against one real serving node.

use super::single::{self, NodeCfg};
use crate::common::*;
use crate::sim::{self, krpc, Action, When};
use serde_json::{json, Value};

#[derive(Clone, Debug)]
pub enum Sym {
    Cmd(usize, &'static str),
    /// a fresh get_peers (for a valid token) followed by the command
    Fresh(usize, &'static str),
    Advance(u64),
}

pub fn run_sequence(cfg: &NodeCfg, seq: &[Sym], tail: &[Sym], rng_seed: u64) -> (sim::RunResult, single::Findings, single::Model) {
    let mut b = single::build(cfg, 0, rng_seed);
    let mut t = b.ready_ms + 100;
    for s in seq.iter().chain(tail.iter()) {
        match s {
            Sym::Cmd(c, cmd) => {
                b.sc.actions.push((When::At(t), Action::PeerCommand { peer: single::client_addr(*c), cmd: cmd.to_string() }));
                t += 50;
            }
            Sym::Fresh(c, cmd) => {
                let hash = cmd.split_whitespace().nth(1).unwrap_or("1");
                b.sc.actions.push((When::At(t), Action::PeerCommand { peer: single::client_addr(*c), cmd: format!("gp {hash} -") }));
                b.sc.actions.push((When::At(t + 20), Action::PeerCommand { peer: single::client_addr(*c), cmd: cmd.to_string() }));
                t += 50;
            }
            Sym::Advance(ms) => t += ms,
        }
    }
    b.sc.horizon_ms = t + 200;
    let res = single::run_built(b);
    let mut model = single::Model::default();
    let f = single::check(&res, cfg, &mut model);
    (res, f, model)
}

fn sym_json(s: &Sym) -> Value {
    match s {
        Sym::Cmd(c, cmd) => json!({"cmd":[c, cmd]}),
        Sym::Fresh(c, cmd) => json!({"fresh":[c, cmd]}),
        Sym::Advance(ms) => json!({"advance":ms}),
    }
}

fn leak(s: &str) -> &'static str {
    Box::leak(s.to_string().into_boxed_str())
}

fn sym_parse(v: &Value) -> Sym {
    if let Some(a) = v.get("cmd") {
        Sym::Cmd(a[0].as_u64().unwrap() as usize, leak(a[1].as_str().unwrap()))
    } else if let Some(a) = v.get("fresh") {
        Sym::Fresh(a[0].as_u64().unwrap() as usize, leak(a[1].as_str().unwrap()))
    } else {
        Sym::Advance(v["advance"].as_u64().unwrap_or(0))
    }
}

/// A refused announce must store nothing: no later reply may list its contact unless an accepted
/// announce put it there.
fn refused_announce_stored(res: &sim::RunResult, cfg: &NodeCfg) -> Option<String> {
    let node = single::node_addr(cfg.v6);
    let (ex, _) = single::exchanges(res, node);
    let mut refused: Vec<([u8; 20], std::net::SocketAddr, u64)> = vec![];
    let mut acked: Vec<([u8; 20], std::net::SocketAddr)> = vec![];
    let mut order: Vec<&single::Exchange> = ex.iter().collect();
    order.sort_by_key(|e| (e.query.delivered_ms[0], e.query.seq));
    for e in order {
        if e.replies.len() != 1 {
            continue;
        }
        let r = &e.replies[0].1;
        let q = &e.parsed;
        if q.q == "announce_peer" && e.well_formed {
            let mut contact = e.query.src;
            if q.implied_port.unwrap_or(0) == 0 {
                contact.set_port(q.port.unwrap_or(0) as u16);
            }
            if r.y == 'e' {
                refused.push((q.target.unwrap(), contact, e.query.delivered_ms[0]));
            } else {
                acked.push((q.target.unwrap(), contact));
            }
        } else if q.q == "get_peers" && r.y == 'r' {
            for a in &r.values {
                if let Some((_, _, t)) = refused.iter().find(|(h, c, _)| Some(*h) == q.target && c == a) {
                    if !acked.iter().any(|(h, c)| Some(*h) == q.target && c == a) {
                        return Some(format!("announce refused at {} ms stored {} anyway (listed at {} ms)", t, a, e.query.delivered_ms[0]));
                    }
                }
            }
        }
    }
    None
}

pub fn c06_alphabet() -> Vec<(&'static str, Sym)> {
    vec![
        ("get_peers A", Sym::Cmd(0, "gp 1 -")),
        ("get_peers B", Sym::Cmd(1, "gp 1 -")),
        ("announce A token-of-A", Sym::Cmd(0, "ann 1 1111 valid")),
        ("announce A' (same IP, other port) token-of-A", Sym::Cmd(3, "ann 1 implied of:0")),
        ("announce B token-of-A", Sym::Cmd(1, "ann 1 2222 of:0")),
        ("announce A previous-instance token", Sym::Cmd(0, "ann 1 1112 previous")),
        ("announce A 19-byte token", Sym::Cmd(0, "ann 1 1113 short")),
        ("announce A token-of-A plus one byte", Sym::Cmd(0, "ann 1 1114 plus")),
        // the same contact as the valid announce (a renewal attempt) with a forged token
        ("re-announce A same contact, forged token", Sym::Cmd(0, "ann 1 1111 random")),
        ("advance 9m59s", Sym::Advance(599_000)),
        ("advance 10m01s", Sym::Advance(601_000)),
        ("advance 30m", Sym::Advance(1_800_000)),
    ]
}

pub fn c07_alphabet() -> Vec<(&'static str, Sym)> {
    vec![
        ("announce A h1 explicit", Sym::Fresh(0, "ann 1 1111 valid")),
        ("announce A h1 implied", Sym::Fresh(0, "ann 1 implied valid")),
        ("announce B h1 implied_port=1 with port 7777", Sym::Fresh(1, "ann 1 implied+7777 valid")),
        ("announce B h1 explicit (same port number)", Sym::Fresh(1, "ann 1 1111 valid")),
        ("announce v6 h1 explicit", Sym::Fresh(2, "ann 1 6666 valid")),
        ("announce A h2 explicit", Sym::Fresh(0, "ann 2 1111 valid")),
        ("announce B h1 forged token (refused)", Sym::Cmd(1, "ann 1 2323 random")),
        ("announce v6 h1 19-byte token (refused)", Sym::Cmd(2, "ann 1 6667 short")),
        ("get_peers h1 from v4", Sym::Cmd(1, "gp 1 -")),
        ("get_peers h1 from v6", Sym::Cmd(2, "gp 1 both")),
        ("advance 12h", Sym::Advance(43_200_000)),
        ("advance 24h-1s", Sym::Advance(86_399_000 - 200)),
        ("advance 24h", Sym::Advance(86_400_000)),
    ]
}

fn tail() -> Vec<Sym> {
    vec![Sym::Cmd(1, "gp 1 -"), Sym::Cmd(2, "gp 1 -"), Sym::Cmd(1, "gp 2 -")]
}

fn sequences(n: usize, maxlen: usize) -> Vec<Vec<usize>> {
    let mut out: Vec<Vec<usize>> = vec![vec![]];
    let mut level: Vec<Vec<usize>> = vec![vec![]];
    for _ in 0..maxlen {
        let mut next = vec![];
        for s in &level {
            for a in 0..n {
                let mut t = s.clone();
                t.push(a);
                next.push(t);
            }
        }
        out.extend(next.iter().cloned());
        level = next;
    }
    out
}

pub fn replay(v: &Value) -> i32 {
    let cfg = super::c05::cfg_parse(&v["cfg"]);
    let seq: Vec<Sym> = v["sequence"].as_array().map(|a| a.iter().map(sym_parse).collect()).unwrap_or_default();
    let prop = v["check"].as_str().unwrap_or("C06");
    let (res, f, _) = run_sequence(&cfg, &seq, &tail(), v["rng_seed"].as_u64().unwrap_or(1));
    let node = single::node_addr(cfg.v6);
    for d in res.wire.iter().filter(|d| (d.src == node || d.dst == node) && d.sent_ms >= 1000) {
        let p = krpc::parse(&d.bytes);
        println!("  {:>9} ms {} > {} {} values={:?}", d.sent_ms, d.src, d.dst, p.canon_key(), p.values);
    }
    let mut code = 0;
    for (tag, sig, what) in &f.items {
        if *tag == prop {
            println!("VIOLATION {sig}: {what}");
            code = 1;
        }
    }
    if prop == "C06" {
        if let Some(w) = refused_announce_stored(&res, &cfg) {
            println!("VIOLATION refused-announce-stored: {w}");
            code = 1;
        }
    }
    code
}

fn bind(rep: &mut Report, prop: &'static str, tier: Tier, alphabet: Vec<(&'static str, Sym)>, maxlen: usize) {
    let seed = 1 + seed();
    let mut seqs = sequences(alphabet.len(), maxlen);
    if tier == Tier::Quick {
        // quick: sequences of full length carry at most one time jump (virtual days are the cost)
        seqs.retain(|s| {
            let jumps: Vec<usize> = (0..s.len()).filter(|k| matches!(alphabet[s[*k]].1, Sym::Advance(_))).collect();
            let long_jump = |k: &usize| matches!(alphabet[s[*k]].1, Sym::Advance(ms) if ms > 3_600_000);
            s.len() < maxlen || jumps.is_empty() || (jumps.len() == 1 && jumps[0] == 1 && !(long_jump(&1) && matches!(alphabet[s[1]].1, Sym::Advance(43_200_000))))
        });
        rep.set("e1_binding_note", "quick tier: sequences of maximal length contain at most one time jump, in the middle position (12 h jump only in shorter sequences)");
    }
    if tier == Tier::Thorough {
        // thorough: sequences of full length carry at most one time jump, in any position (every virtual day
        // costs 14 400 refresh rounds of the idle node)
        seqs.retain(|s| {
            let jumps: Vec<u64> = s.iter().filter_map(|k| if let Sym::Advance(ms) = alphabet[*k].1 { Some(ms) } else { None }).collect();
            s.len() < maxlen || jumps.len() <= 1 && jumps.iter().all(|ms| *ms <= 43_200_000)
        });
        rep.set("e1_binding_note", "thorough tier: sequences of maximal length contain at most one time jump (any position) of at most 12 h; shorter ones are unrestricted");
    }
    let cfgs: Vec<NodeCfg> = tier.pick(
        vec![NodeCfg { v6: false, read_only: false, table: 0, store: false }],
        vec![NodeCfg { v6: false, read_only: false, table: 0, store: false }, NodeCfg { v6: true, read_only: false, table: 3, store: true }],
    );
    let mut work: Vec<(usize, usize)> = vec![];
    for ci in 0..cfgs.len() {
        for si in 0..seqs.len() {
            work.push((ci, si));
        }
    }
    let tl = tail();
    let outs = par_map(&work, |_, (ci, si)| {
        let seq: Vec<Sym> = seqs[*si].iter().map(|i| alphabet[*i].1.clone()).collect();
        let (res, f, _) = run_sequence(&cfgs[*ci], &seq, &tl, seed);
        let stored = if prop == "C06" { refused_announce_stored(&res, &cfgs[*ci]) } else { None };
        (sim::trace_hash(&res, ""), res.wire.len() as u64, f, stored)
    });
    let mut distinct = std::collections::HashSet::new();
    for ((ci, si), (h, wire, f, stored)) in work.iter().zip(outs.iter()) {
        distinct.insert(*h);
        rep.add("transitions", *wire);
        rep.add("e1_announce_acks", f.acks);
        rep.add("e1_announce_203", f.refusals_203);
        rep.add("e1_announce_202", f.refusals_202);
        rep.add("e1_replies_checked", f.replies_checked);
        let labels: Vec<&str> = seqs[*si].iter().map(|i| alphabet[*i].0).collect();
        let replay = json!({"engine":"E1","check":prop,"part":"binding","cfg":{"v6":cfgs[*ci].v6,"read_only":false,"table":cfgs[*ci].table,"store":cfgs[*ci].store},"rng_seed":seed,"sequence": seqs[*si].iter().map(|i| sym_json(&alphabet[*i].1)).collect::<Vec<_>>()});
        for (tag, sig, what) in &f.items {
            if *tag == prop {
                rep.violation(format!("handler {sig}"), format!("{what} [sequence {:?}]", labels), replay.clone());
            }
        }
        if let Some(w) = stored {
            rep.violation("handler refused-announce-stored", format!("{w} [sequence {:?}]", labels), replay.clone());
        }
    }
    rep.set("e1_binding_runs", work.len() as u64);
    rep.set("e1_binding_distinct_traces", distinct.len() as u64);
    rep.set("e1_binding_alphabet", json!(alphabet.iter().map(|a| a.0).collect::<Vec<_>>()));
    rep.set("e1_binding_max_sequence_length", maxlen as u64);
    let mid = &seqs[seqs.len() / 2];
    rep.sample(json!({"engine":"E1","part":"binding","sequence": mid.iter().map(|i| alphabet[*i].0).collect::<Vec<_>>()}));
}

pub fn c06_binding(tier: Tier, rep: &mut Report) {
    bind(rep, "C06", tier, c06_alphabet(), tier.pick(3, 4));
}

pub fn c07_binding(tier: Tier, rep: &mut Report) {
    bind(rep, "C07", tier, c07_alphabet(), tier.pick(3, 4));
    // capacity through the handler: k pairs from client 0, then a new pair, a renewal, expiry
    let seed = 1 + seed();
    let ks = [498usize, 499, 500];
    let outs = par_map(&ks, |_, &k| {
        let cfg = NodeCfg { v6: false, read_only: false, table: 0, store: false };
        let mut b = single::build(&cfg, 0, seed);
        let mut t = b.ready_ms;
        b.sc.actions.push((When::At(t), Action::PeerCommand { peer: single::client_addr(0), cmd: "gp 3 -".into() }));
        t += 20;
        for p in 0..k {
            b.sc.actions.push((When::At(t + (p / 4) as u64), Action::PeerCommand { peer: single::client_addr(0), cmd: format!("ann 3 {} valid", 1000 + p) }));
        }
        t += (k / 4) as u64 + 100;
        let mut cmds: Vec<(usize, String)> = vec![
            (1, "gp 1 -".into()),
            (1, "ann 1 7001 valid".into()),
            (1, "ann 1 7002 valid".into()),
            (1, "ann 1 7003 valid".into()),
            (0, "ann 3 1000 valid".into()),
            (1, "ann 1 7001 valid".into()),
            (1, "gp 1 -".into()),
            (1, "gp 3 -".into()),
        ];
        for (c, cmd) in cmds.drain(..) {
            b.sc.actions.push((When::At(t), Action::PeerCommand { peer: single::client_addr(c), cmd }));
            t += 30;
        }
        // a day later everything from the first batch has expired: room again
        t += 86_400_000;
        for (c, cmd) in [(1usize, "gp 1 -"), (1, "ann 1 7004 valid"), (1, "gp 1 -"), (1, "gp 3 -")] {
            b.sc.actions.push((When::At(t), Action::PeerCommand { peer: single::client_addr(c), cmd: cmd.into() }));
            t += 30;
        }
        b.sc.horizon_ms = t + 200;
        let res = single::run_built(b);
        let mut model = single::Model::default();
        let f = single::check(&res, &cfg, &mut model);
        (res.wire.len() as u64, f)
    });
    for (k, (wire, f)) in ks.iter().zip(outs.iter()) {
        rep.add("transitions", *wire);
        rep.add("e1_capacity_runs", 1);
        rep.add("e1_announce_202", f.refusals_202);
        rep.add("e1_announce_acks", f.acks);
        for (tag, sig, what) in &f.items {
            if *tag == "C07" {
                rep.violation(format!("handler-capacity {sig}"), format!("{what} [{k} pairs pre-stored]"), json!({"engine":"E1","check":"C07","part":"capacity","k":k}));
            }
        }
    }
}

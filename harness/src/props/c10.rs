//! C10 — contacts are classified good / questionable / bad exactly per BEP5 timing.
//! E2: exploration of a real RoutingTable holding one contact (closure in the thorough tier) and
//! two contacts in different buckets (bounded depth), against a history specification.

use crate::common::*;
use crate::space::{self, Step};
use btdht::verif::{clock, Node, NodeHandle, RoutingTable};
use btdht::InfoHash;
use serde_json::{json, Value};
use std::net::SocketAddr;
use std::time::Duration;

const T0_MS: u64 = 7_200_000;
const M15: u64 = 900_000;

#[derive(Clone, Copy, PartialEq, Eq, Debug)]
pub enum Rep {
    Good,
    Questionable,
    Absent,
}

/// History specification of one contact.
#[derive(Clone, Copy, Default, Debug)]
pub struct Spec {
    present: bool,
    ever_answered: bool,
    last_answer: Option<u64>,
    last_qrx: Option<u64>,
    /// queries sent while the contact was reported not good, since the last answer / admission
    unanswered: u8,
}

impl Spec {
    /// Statuses the statement allows at `now`.
    fn allowed(&self, now: u64) -> &'static [Rep] {
        if !self.present {
            return &[Rep::Absent];
        }
        if self.unanswered >= 2 {
            // only reachable through a not-good send; purged on the spot
            return &[Rep::Absent];
        }
        if self.last_answer.map_or(false, |t| now - t < M15) {
            return &[Rep::Good];
        }
        if self.last_qrx.map_or(false, |t| now - t < M15) {
            return if self.ever_answered { &[Rep::Good] } else { &[Rep::Good, Rep::Questionable] };
        }
        &[Rep::Questionable]
    }
}

#[derive(Clone)]
pub struct St {
    table: RoutingTable,
    now: u64,
    spec: [Spec; 2],
}

#[derive(Clone, Debug)]
pub enum Ev {
    Answer(usize),
    Hearsay(usize),
    QueryRx(usize),
    QuerySent(usize),
    Advance(u64),
}

fn set_clock(ms: u64) {
    clock::set(Some(Duration::from_millis(ms)));
}

pub struct Ctx {
    pub contacts: Vec<NodeHandle>,
    pub local_age_in_key: bool,
}

fn id_with_first_byte(b: u8, last: u8) -> InfoHash {
    let mut x = [0u8; 20];
    x[0] = b;
    x[19] = last;
    InfoHash::from(x)
}

impl Ctx {
    pub fn new(n: usize, local_age_in_key: bool) -> Ctx {
        let mut contacts = vec![];
        let addrs: [SocketAddr; 2] = ["10.1.0.1:6881".parse().unwrap(), "10.1.0.2:6881".parse().unwrap()];
        let ids = [id_with_first_byte(0x80, 1), id_with_first_byte(0x40, 2)];
        for i in 0..n {
            contacts.push(NodeHandle::new(ids[i], addrs[i]));
        }
        Ctx { contacts, local_age_in_key }
    }

    fn reported(&self, s: &St, i: usize) -> Result<Rep, String> {
        let h = &self.contacts[i];
        let (good, quest) = s.table.load_contacts();
        let r = match (good.contains(&h.addr), quest.contains(&h.addr)) {
            (true, false) => Rep::Good,
            (false, true) => Rep::Questionable,
            (false, false) => Rep::Absent,
            (true, true) => return Err(format!("contact {i} listed both good and questionable")),
        };
        // "and is not offered to others": closest_nodes must agree with load_contacts
        let offered = s
            .table
            .closest_nodes(h.id)
            .filter(|n| n.id() == h.id && n.addr() == h.addr)
            .count();
        let want = if r == Rep::Absent { 0 } else { 1 };
        if offered != want {
            return Err(format!(
                "contact {i} reported {:?} by load_contacts but offered {offered} time(s) by closest_nodes",
                r
            ));
        }
        Ok(r)
    }

    fn key(&self, s: &St) -> u128 {
        set_clock(s.now);
        let mut fields: Vec<u64> = Vec::with_capacity(24);
        fields.push(s.table.buckets().count() as u64);
        for (i, h) in self.contacts.iter().enumerate() {
            // implementation snapshot of the slot holding the contact (bad slots included)
            let mut snap = [0u64; 5];
            for b in s.table.buckets() {
                for n in b.iter() {
                    if n.id() == h.id && n.addr() == h.addr {
                        let (rq, rs, lr, c) = n.verif_snapshot();
                        let sat = |d: Option<Duration>, m: u64| d.map_or(m + 1, |d| (d.as_millis() as u64).min(m));
                        snap = [
                            1,
                            sat(rq, M15),
                            sat(rs, M15),
                            if self.local_age_in_key { sat(lr, 30_000) } else { 0 },
                            (c as u64).min(2),
                        ];
                    }
                }
            }
            fields.extend_from_slice(&snap);
            // reference state too, so that merging can never hide a disagreement
            let sp = &s.spec[i];
            let sat = |t: Option<u64>| t.map_or(M15 + 1, |t| (s.now - t).min(M15));
            fields.extend_from_slice(&[
                sp.present as u64,
                sp.ever_answered as u64,
                sp.unanswered.min(2) as u64,
                sat(sp.last_answer),
                sat(sp.last_qrx),
            ]);
        }
        key128(&fields)
    }

    fn check(&self, s: &St) -> Result<u8, (String, String)> {
        set_clock(s.now);
        let mut class = 0;
        for i in 0..self.contacts.len() {
            let r = self.reported(s, i).map_err(|e| ("contacts-and-offers-disagree".to_string(), e))?;
            let allowed = s.spec[i].allowed(s.now);
            if !allowed.contains(&r) {
                let sig = match (r, allowed[0]) {
                    (Rep::Good, _) => "reported-good-without-recent-answer-or-query",
                    (_, Rep::Good) => "not-good-despite-recent-answer-or-query",
                    (Rep::Absent, _) => "dropped-without-two-unanswered-queries",
                    (_, Rep::Absent) => "still-reported-after-two-unanswered-queries",
                    _ => "wrong-class",
                };
                return Err((
                    sig.to_string(),
                    format!("contact {i} reported {:?}, history allows {:?} ({:?} at t={}ms)", r, allowed, s.spec[i], s.now),
                ));
            }
            if i == 0 {
                class = match r {
                    Rep::Good => 1,
                    Rep::Questionable => 2,
                    Rep::Absent => 3,
                };
            }
        }
        Ok(class)
    }

    fn step(&self, s: &St, e: &Ev) -> Step<St> {
        let mut n = s.clone();
        set_clock(n.now);
        match *e {
            Ev::Answer(i) if i < self.contacts.len() => {
                let h = self.contacts[i];
                n.table.add_nodes(Node::as_good(h.id, h.addr), &[]);
                let sp = &mut n.spec[i];
                sp.present = true;
                sp.ever_answered = true;
                sp.last_answer = Some(n.now);
                sp.unanswered = 0;
            }
            Ev::Hearsay(i) if i < self.contacts.len() => {
                let h = self.contacts[i];
                // named inside somebody else's answer (the answering node is not modelled here)
                n.table.add_node(Node::as_questionable(h.id, h.addr));
                let sp = &mut n.spec[i];
                if !sp.present {
                    *sp = Spec { present: true, ..Spec::default() };
                }
            }
            Ev::QueryRx(i) if i < self.contacts.len() => {
                let h = self.contacts[i];
                if let Some(node) = n.table.find_node_mut(&h) {
                    node.remote_request();
                }
                let sp = &mut n.spec[i];
                if sp.present {
                    sp.last_qrx = Some(n.now);
                }
            }
            Ev::QuerySent(i) if i < self.contacts.len() => {
                let h = self.contacts[i];
                // "not good" is judged by what the node reports at the instant of sending
                let reported = match self.reported(&n, i) {
                    Ok(r) => r,
                    Err(e) => return Step::Violation { signature: "contacts-and-offers-disagree".into(), what: e },
                };
                if let Some(node) = n.table.find_node_mut(&h) {
                    node.local_request();
                }
                let sp = &mut n.spec[i];
                if sp.present && reported != Rep::Good {
                    sp.unanswered = (sp.unanswered + 1).min(2);
                    if sp.unanswered >= 2 {
                        sp.present = false;
                    }
                }
            }
            Ev::Advance(ms) => n.now += ms,
            _ => return Step::Disabled,
        }
        // Losing contact j because contact i was offered is an eviction: whether that trade was
        // legitimate is C08's business, not a classification error, so the history of j ends here.
        if let Ev::Answer(i) | Ev::Hearsay(i) = *e {
            for j in 0..self.contacts.len() {
                if j != i && n.spec[j].present && self.reported(&n, j) == Ok(Rep::Absent) {
                    n.spec[j] = Spec::default();
                }
            }
        }
        match self.check(&n) {
            Ok(c) => Step::Next(n, c),
            Err((signature, what)) => Step::Violation { signature, what },
        }
    }

    fn initial(&self) -> St {
        set_clock(T0_MS);
        St {
            table: RoutingTable::new(InfoHash::from([0u8; 20])),
            now: T0_MS,
            spec: [Spec::default(); 2],
        }
    }
}

fn ev_json(e: &Ev) -> Value {
    match e {
        Ev::Answer(i) => json!({"ev":"Answer","c":i}),
        Ev::Hearsay(i) => json!({"ev":"Hearsay","c":i}),
        Ev::QueryRx(i) => json!({"ev":"QueryRx","c":i}),
        Ev::QuerySent(i) => json!({"ev":"QuerySent","c":i}),
        Ev::Advance(ms) => json!({"ev":"Advance","ms":ms}),
    }
}
fn ev_parse(v: &Value) -> Ev {
    let c = v["c"].as_u64().unwrap_or(0) as usize;
    match v["ev"].as_str().unwrap_or("") {
        "Answer" => Ev::Answer(c),
        "Hearsay" => Ev::Hearsay(c),
        "QueryRx" => Ev::QueryRx(c),
        "QuerySent" => Ev::QuerySent(c),
        _ => Ev::Advance(v["ms"].as_u64().unwrap_or(0)),
    }
}

pub fn replay(v: &Value) -> i32 {
    let n = v["contacts"].as_u64().unwrap_or(1) as usize;
    let ctx = Ctx::new(n, true);
    let mut s = ctx.initial();
    for e in v["events"].as_array().cloned().unwrap_or_default() {
        let ev = ev_parse(&e);
        match ctx.step(&s, &ev) {
            Step::Next(ns, c) => {
                println!("  {:?} -> t={}ms contact0 class={} spec={:?}", ev, ns.now, c, ns.spec[0]);
                s = ns;
            }
            Step::Disabled => println!("  {:?} disabled", ev),
            Step::Violation { signature, what } => {
                println!("  {:?} -> VIOLATION {signature}: {what}", ev);
                return 1;
            }
        }
    }
    0
}

fn events(n: usize, steps: &[u64]) -> Vec<Ev> {
    let mut v = vec![];
    for i in 0..n {
        v.extend([Ev::Answer(i), Ev::Hearsay(i), Ev::QueryRx(i), Ev::QuerySent(i)]);
    }
    for s in steps {
        v.push(Ev::Advance(*s));
    }
    v
}

pub fn run(tier: Tier, rep: &mut Report) {
    struct Plan {
        name: &'static str,
        contacts: usize,
        steps: Vec<u64>,
        depth: u32,
        local_age: bool,
    }
    let s = |v: &[u64]| v.iter().map(|x| x * 1000).collect::<Vec<u64>>();
    let plans = match tier {
        Tier::Quick => vec![
            Plan { name: "one-contact depth<=16 steps{1,29,30,31,899,900,901}s", contacts: 1, steps: s(&[1, 29, 30, 31, 899, 900, 901]), depth: 16, local_age: true },
            Plan { name: "one-contact closure on the 450 s grid {450,899,900,901}s (no local-request age)", contacts: 1, steps: s(&[450, 899, 900, 901]), depth: u32::MAX, local_age: false },
            Plan { name: "two-contacts depth<=7 steps{450,899,900,901}s", contacts: 2, steps: s(&[450, 899, 900, 901]), depth: 7, local_age: false },
        ],
        Tier::Thorough => vec![
            Plan { name: "one-contact closure steps{1,29,30,31,899,900,901}s", contacts: 1, steps: s(&[1, 29, 30, 31, 899, 900, 901]), depth: u32::MAX, local_age: true },
            Plan { name: "two-contacts depth<=8 steps{450,899,900,901}s", contacts: 2, steps: s(&[450, 899, 900, 901]), depth: 8, local_age: false },
        ],
    };
    let mut info = vec![];
    for p in plans {
        let ctx = Ctx::new(p.contacts, p.local_age);
        let evs = events(p.contacts, &p.steps);
        let res = space::bfs(
            vec![ctx.initial()],
            &evs,
            &|s| ctx.key(s),
            &|s, e| ctx.step(s, e),
            &space::Cfg { max_depth: p.depth, max_states: 120_000_000, max_violations: 6 },
        );
        rep.add("states", res.states);
        rep.add("transitions", res.transitions);
        rep.add("e2_reported_good", res.classes[1]);
        rep.add("e2_reported_questionable", res.classes[2]);
        rep.add("e2_reported_absent", res.classes[3]);
        info.push(json!({"plan": p.name, "states": res.states, "transitions": res.transitions, "max_depth": res.depth, "closed": res.closed, "capped": res.capped}));
        for (_, t) in res.sample_traces.iter().rev().take(2) {
            rep.sample(json!({"engine":"E2","plan":p.name,"events": t.iter().map(ev_json).collect::<Vec<_>>()}));
        }
        for f in res.violations {
            rep.violation(
                format!("node-status {}", f.signature),
                format!("{} after {} events", f.what, f.trace.len()),
                json!({"engine":"E2","check":"C10","contacts":p.contacts,"events": f.trace.iter().map(ev_json).collect::<Vec<_>>()}),
            );
        }
    }
    rep.set("e2_plans", json!(info));
    clock::set(None);
}

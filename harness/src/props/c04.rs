//! C04 — every search ends, neither early nor never (E1).

use crate::common::*;
use crate::sim::explore::{self, PrefixChooser, RunOutcome};
use crate::sim::peers::{Mode, NodeList, Responder};
use crate::sim::{self, krpc, Action, Fate, NodeSpec, Peer, RunResult, Scenario, SendAnswer, When};
use btdht::InfoHash;
use serde_json::{json, Value};
use std::collections::{BTreeMap, BTreeSet};
use std::net::SocketAddr;
use std::sync::Arc;

const T_SEARCH: u64 = 10_000;

#[derive(Clone, Debug, PartialEq)]
pub enum Beh {
    Answers,
    Silent,
    ErrorReply,
}

#[derive(Clone, Debug)]
pub struct Cfg {
    /// behaviour of each known peer towards get_peers
    pub peers: Vec<Beh>,
    /// length of a chain of ever closer nodes hanging off peer 0 (0 = none); chain nodes answer
    pub chain: usize,
    /// behaviour of the last chain node
    pub chain_end: Beh,
    pub announce: bool,
    /// fail the k-th send_to after the search started (0-based), if any
    pub send_fail: Option<usize>,
    /// 0: send_to returns Err, 1: send_to yields once (Pending) before completing
    pub send_answer: u8,
    /// the known peers are given to the builder as routers (the node never reaches Bootstrapped)
    pub via_router: bool,
    /// an unrelated API call (get_state) this many ms after the search started
    pub poke_ms: Option<u64>,
    /// the chain nodes' addresses are configured as routers, so the routing table never admits them
    pub chain_unadmitted: bool,
    /// (offset, n): another search (other info-hash) is requested at T_SEARCH - 2 s + offset; three extra
    /// contacts answer it naming n far, silent addresses (a large end-game) and ignore the judged search
    pub busy: Option<(u64, usize)>,
    /// (send_to takes this many ms to complete, one-way link latency in ms)
    pub slow_send: Option<(u64, u64)>,
    pub rng_seed: u64,
}

fn s_addr() -> SocketAddr {
    "10.0.0.4:6881".parse().unwrap()
}
fn p_addr(i: usize) -> SocketAddr {
    format!("10.0.4.{}:6881", i + 1).parse().unwrap()
}
fn ih() -> [u8; 20] {
    [0x40; 20]
}
fn p_id(i: usize) -> [u8; 20] {
    // known peers: far from the hash, distinct first bytes
    let mut b = [0xc0u8; 20];
    b[0] = 0xc0 | (i as u8);
    b[19] = i as u8;
    b
}
fn chain_id(k: usize) -> [u8; 20] {
    // shares ever more bits with the info-hash
    let mut b = ih();
    let bit = 8 + k; // differ at bit 8+k
    b[bit / 8] ^= 1 << (7 - bit % 8);
    b[19] = 0x70 + k as u8;
    b
}
fn s_id() -> [u8; 20] {
    let mut b = [0x0fu8; 20];
    b[0] = 0x8f;
    b
}

pub fn build(cfg: &Cfg, base_sends: Option<usize>) -> (Scenario, Vec<Box<dyn Peer>>) {
    let mut sc = Scenario::new("search-termination");
    sc.rng_seed = cfg.rng_seed;
    let n = cfg.peers.len();
    let universe: Arc<Vec<([u8; 20], SocketAddr)>> = Arc::new((0..n).map(|i| (p_id(i), p_addr(i))).collect());
    let mut peers: Vec<Box<dyn Peer>> = vec![];
    let to_mode = |b: &Beh| match b {
        Beh::Answers => None,
        Beh::Silent => Some(Mode::Silent),
        Beh::ErrorReply => Some(Mode::ErrorReply),
    };
    for (i, b) in cfg.peers.iter().enumerate() {
        let mut r = Responder::new(p_addr(i), p_id(i), universe.clone());
        r.search_mode = to_mode(b);
        r.values = vec![format!("172.20.0.{}:{}", i + 1, 5000 + i).parse().unwrap()];
        if i == 0 && cfg.chain > 0 {
            r.node_list = NodeList::Fixed(vec![(chain_id(0), p_addr(100))]);
            // the chain is only discoverable through the search
            r.find_node_list = Some(NodeList::Closest8);
        }
        peers.push(Box::new(r));
    }
    for k in 0..cfg.chain {
        let mut r = Responder::new(p_addr(100 + k), chain_id(k), universe.clone());
        r.node_list = if k + 1 < cfg.chain { NodeList::Fixed(vec![(chain_id(k + 1), p_addr(100 + k + 1))]) } else { NodeList::None };
        r.find_node_list = Some(NodeList::None);
        r.values = vec![format!("172.21.0.{}:{}", k + 1, 6000 + k).parse().unwrap()];
        if k + 1 == cfg.chain {
            r.search_mode = to_mode(&cfg.chain_end);
        }
        peers.push(Box::new(r));
    }
    let mut busy_contacts: Vec<SocketAddr> = vec![];
    if let Some((off, crowd)) = cfg.busy {
        let ih2 = [0xa7u8; 20];
        for b in 0..3usize {
            // close to the busy search's hash, far from the judged one
            let mut id = ih2;
            id[2] ^= 0x10 << b;
            id[19] = b as u8;
            let addr = p_addr(50 + b);
            let mut r = Responder::new(addr, id, universe.clone());
            r.find_node_list = Some(NodeList::None);
            r.silent_for = Some(ih());
            let list: Vec<([u8; 20], SocketAddr)> = (0..crowd / 3)
                .map(|k| {
                    // farther from ih2 than every answering node: never asked before the end-game
                    let mut cid = [0x18u8; 20];
                    cid[1] = b as u8;
                    cid[2] = k as u8;
                    (cid, format!("10.0.{}.{}:7000", 60 + b, 1 + k).parse().unwrap())
                })
                .collect();
            r.crowd = Some((ih2, list));
            peers.push(Box::new(r));
            busy_contacts.push(addr);
        }
        sc.actions.push((When::At(T_SEARCH - 2_000 + off), Action::Search { node: 0, info_hash: InfoHash::from(ih2), announce: false, tag: "busy".into() }));
    }
    if cfg.via_router {
        // peer 0 is the router (never admitted); the others are learned from its answers
        sc.nodes.push(NodeSpec { addr: s_addr(), id: Some(InfoHash::from(s_id())), read_only: true, announce_port: None, contacts: vec![], routers: vec![p_addr(0).to_string()], start_ms: 0 });
    } else {
        let routers: Vec<String> = if cfg.chain_unadmitted { (0..cfg.chain).map(|k| p_addr(100 + k).to_string()).collect() } else { vec![] };
        sc.nodes.push(NodeSpec { addr: s_addr(), id: Some(InfoHash::from(s_id())), read_only: true, announce_port: None, contacts: (0..n).map(p_addr).chain(busy_contacts.iter().copied()).collect(), routers, start_ms: 0 });
    }
    if let Some(p) = cfg.poke_ms {
        sc.actions.push((When::At(T_SEARCH + p), Action::GetState { node: 0, tag: "poke".into() }));
        sc.actions.push((When::At(T_SEARCH + p + 1), Action::LocalAddr { node: 0, tag: "poke2".into() }));
    }
    sc.actions.push((When::At(T_SEARCH), Action::Search { node: 0, info_hash: InfoHash::from(ih()), announce: cfg.announce, tag: "search".into() }));
    sc.stop_after = vec!["search".into()];
    sc.linger_ms = 2_000;
    sc.horizon_ms = T_SEARCH + 120_000;
    sc.link_latency = Arc::new(|_, _| 20);
    if let Some((delay, lat)) = cfg.slow_send {
        sc.send_delay_ms = delay;
        sc.link_latency = Arc::new(move |_, _| lat);
    }
    sc.eligible = Some(Arc::new(|d, p| d.sent_ms >= T_SEARCH && p.valid && ((p.y == 'q' && p.q == "get_peers") || ((p.y == 'r' && p.token.is_some()) || p.y == 'e'))));
    if let (Some(k), Some(base)) = (cfg.send_fail, base_sends) {
        sc.send_plan = vec![(0, base + k, if cfg.send_answer == 0 { SendAnswer::Err } else { SendAnswer::PendingOnce })];
    }
    (sc, peers)
}

pub struct Facts {
    pub first_query: Option<u64>,
    pub end: Option<u64>,
    pub queries: usize,
}

pub fn judge(cfg: &Cfg, res: &RunResult, send_failures: bool) -> (Vec<(String, String)>, Facts) {
    let mut v = vec![];
    let s = s_addr();
    let end = res.finished("search");
    let start = res.started("search").unwrap_or(T_SEARCH);
    // the search's queries
    let mut queries: Vec<(Vec<u8>, SocketAddr, u64)> = vec![];
    for d in res.wire.iter().filter(|d| d.src == s && d.sent_ms >= start) {
        let p = krpc::parse(&d.bytes);
        if p.is_query("get_peers") && p.target == Some(ih()) {
            queries.push((p.tid.clone(), d.dst, d.sent_ms));
        }
    }
    let first_query = queries.iter().map(|q| q.2).min();
    // answers: tid -> first delivery time, values, named nodes
    let mut answers: BTreeMap<Vec<u8>, (u64, Vec<SocketAddr>)> = BTreeMap::new();
    let mut named: BTreeSet<SocketAddr> = BTreeSet::new();
    for d in res.wire.iter().filter(|d| d.dst == s && !d.delivered_ms.is_empty()) {
        let p = krpc::parse(&d.bytes);
        if p.y != 'r' {
            continue;
        }
        if let Some(q) = queries.iter().find(|q| q.0 == p.tid && q.1 == d.src) {
            let t = d.delivered_ms[0];
            answers.entry(q.0.clone()).or_insert((t, p.values.clone()));
            for (_, a) in &p.nodes {
                named.insert(*a);
            }
        }
    }
    let facts = Facts { first_query, end, queries: queries.len() };
    if !res.panics.is_empty() {
        v.push(("node-task-panicked".to_string(), res.panics[0].clone()));
    }
    let end = match end {
        Some(e) => e,
        None => {
            v.push(("search-never-ends".to_string(), format!("stream still open at {} ms ({} queries sent, first at {:?})", res.end_ms, queries.len(), first_query)));
            return (v, facts);
        }
    };
    match first_query {
        None => {
            // nothing could be asked: must close at the instant of the call
            if end > start + 1 && !send_failures {
                v.push(("search-without-anyone-to-ask-closes-late".to_string(), format!("called at {start}, closed at {end}")));
            }
        }
        Some(fq) => {
            let initial = queries.iter().filter(|q| q.2 == fq).count() as u64;
            let bound = fq + 1_500 * (named.len() as u64 + initial) + 3_000 + 10;
            if end > bound {
                v.push(("search-ends-too-late".to_string(), format!("closed {} ms after the first query; bound is 1.5 s x ({} named + {} initial) + 3 s", end - fq, named.len(), initial)));
            }
            if answers.is_empty() && !send_failures {
                // nobody answered at all: one query timeout, then one end-game (whether or not it had anybody left to ask)
                let dt = end - fq;
                if !(2_990..=3_050).contains(&dt) {
                    v.push(("silent-network-search-not-3s".to_string(), format!("closed {dt} ms after the first query")));
                }
            }
            if !send_failures {
                for (tid, dst, sent) in &queries {
                    match answers.get(tid) {
                        None => {
                            if end < sent + 1_500 - 10 {
                                v.push(("search-closes-with-a-young-unanswered-query".to_string(), format!("query to {dst} sent at +{} ms still unanswered and only {} ms old when the stream closed", sent - fq, end - sent)));
                            }
                        }
                        Some((t, _)) if *t > end => {
                            if *t - sent <= 1_490 {
                                v.push(("search-closes-with-a-young-unanswered-query".to_string(), format!("answer from {dst} arrives {} ms after its query but the stream closed before", t - sent)));
                            }
                        }
                        _ => {}
                    }
                }
                // answers within 1.5 s are never missed
                let mut stream: Vec<SocketAddr> = res.items("search").into_iter().map(|(_, a)| a).collect();
                for (tid, dst, sent) in &queries {
                    if let Some((t, values)) = answers.get(tid) {
                        if *t - sent <= 1_490 {
                            for val in values {
                                match stream.iter().position(|x| x == val) {
                                    Some(i) => {
                                        stream.swap_remove(i);
                                    }
                                    None => v.push(("timely-answer-missed".to_string(), format!("answer from {dst} arrived {} ms after its query but {val} is not in the stream", t - sent))),
                                }
                            }
                        }
                    }
                }
            }
        }
    }
    let _ = cfg;
    (v, facts)
}

fn fates() -> Vec<Option<Fate>> {
    vec![None, Some(Fate::Deliver(1)), Some(Fate::Deliver(740)), Some(Fate::Deliver(760)), Some(Fate::Deliver(990)), Some(Fate::Deliver(1_600)), Some(Fate::Drop)]
}

fn beh_s(b: &Beh) -> &'static str {
    match b {
        Beh::Answers => "answers",
        Beh::Silent => "silent",
        Beh::ErrorReply => "error",
    }
}
fn beh_p(s: &str) -> Beh {
    match s {
        "silent" => Beh::Silent,
        "error" => Beh::ErrorReply,
        _ => Beh::Answers,
    }
}
fn cfg_json(c: &Cfg) -> Value {
    json!({"peers": c.peers.iter().map(beh_s).collect::<Vec<_>>(), "chain": c.chain, "chain_end": beh_s(&c.chain_end), "announce": c.announce, "send_fail": c.send_fail, "send_answer": c.send_answer, "via_router": c.via_router, "poke_ms": c.poke_ms, "chain_unadmitted": c.chain_unadmitted, "busy": c.busy.map(|(o, n)| json!([o, n])), "slow_send": c.slow_send.map(|(a, b)| json!([a, b])), "rng_seed": c.rng_seed})
}
fn cfg_parse(v: &Value) -> Cfg {
    Cfg {
        peers: v["peers"].as_array().map(|a| a.iter().map(|x| beh_p(x.as_str().unwrap())).collect()).unwrap_or_default(),
        chain: v["chain"].as_u64().unwrap_or(0) as usize,
        chain_end: beh_p(v["chain_end"].as_str().unwrap_or("answers")),
        announce: v["announce"].as_bool().unwrap_or(false),
        send_fail: v["send_fail"].as_u64().map(|x| x as usize),
        send_answer: v["send_answer"].as_u64().unwrap_or(0) as u8,
        via_router: v["via_router"].as_bool().unwrap_or(false),
        poke_ms: v["poke_ms"].as_u64(),
        chain_unadmitted: v["chain_unadmitted"].as_bool().unwrap_or(false),
        busy: v["busy"].as_array().map(|a| (a[0].as_u64().unwrap_or(0), a[1].as_u64().unwrap_or(0) as usize)),
        slow_send: v["slow_send"].as_array().map(|a| (a[0].as_u64().unwrap_or(0), a[1].as_u64().unwrap_or(20))),
        rng_seed: v["rng_seed"].as_u64().unwrap_or(1),
    }
}

/// number of send_to calls of the node before the search starts (deterministic)
fn base_sends(cfg: &Cfg) -> usize {
    let mut c = cfg.clone();
    c.send_fail = None;
    let (mut sc, peers) = build(&c, None);
    sc.actions.clear();
    sc.stop_after.clear();
    sc.horizon_ms = T_SEARCH;
    let res = sim::run(&sc, peers, &mut sim::DefaultChooser);
    res.wire.iter().filter(|d| d.from_real).count()
}

pub fn run_cfg(cfg: &Cfg, fs: &[Option<Fate>], prefix: &[usize]) -> (RunResult, Vec<(String, String)>, Facts, bool) {
    let base = cfg.send_fail.map(|_| base_sends(cfg));
    let (mut sc, peers) = build(cfg, base);
    sc.fates = fs.to_vec();
    let mut ch = PrefixChooser { prefix, pos: 0, out_of_range: false };
    let res = sim::run(&sc, peers, &mut ch);
    let (v, facts) = judge(cfg, &res, cfg.send_fail.is_some() && cfg.send_answer == 0);
    (res, v, facts, ch.out_of_range)
}

pub fn replay(v: &Value) -> i32 {
    let cfg = cfg_parse(&v["cfg"]);
    let prefix: Vec<usize> = v["choices"].as_array().map(|a| a.iter().map(|x| x.as_u64().unwrap() as usize).collect()).unwrap_or_default();
    let fs = if prefix.is_empty() { vec![None] } else { fates() };
    let (res, viol, facts, _) = run_cfg(&cfg, &fs, &prefix);
    for d in res.wire.iter().filter(|d| d.sent_ms >= T_SEARCH) {
        let p = krpc::parse(&d.bytes);
        if p.q == "find_node" || (p.y == 'r' && p.token.is_none() && p.values.is_empty() && p.err_code.is_none()) {
            continue;
        }
        println!("  {:>7} ms {} > {} {} delivered {:?}", d.sent_ms, d.src, d.dst, p.canon_key(), d.delivered_ms);
    }
    println!("first query {:?}, end {:?}, stream {:?}", facts.first_query, facts.end, res.items("search"));
    for (s, w) in &viol {
        println!("VIOLATION {s}: {w}");
    }
    if viol.is_empty() { 0 } else { 1 }
}

pub fn configs(tier: Tier, seed: u64) -> Vec<Cfg> {
    let mut out = vec![];
    let behs = [Beh::Answers, Beh::Silent, Beh::ErrorReply];
    let maxn = tier.pick(4, 6);
    // every behaviour vector for n <= 3, uniform and "one different" beyond
    for n in 0..=maxn {
        let total = 3usize.pow(n as u32);
        for code in 0..total {
            let peers: Vec<Beh> = (0..n).map(|i| behs[(code / 3usize.pow(i as u32)) % 3].clone()).collect();
            if n > 3 {
                let distinct: BTreeSet<&str> = peers.iter().map(beh_s).collect();
                let minority = peers.iter().filter(|b| **b != peers[0]).count();
                if distinct.len() > 2 || minority > 1 {
                    continue;
                }
            }
            for announce in [false, true] {
                out.push(Cfg { peers: peers.clone(), chain: 0, chain_end: Beh::Answers, announce, send_fail: None, send_answer: 0, via_router: false, poke_ms: None, chain_unadmitted: false, busy: None, slow_send: None, rng_seed: seed });
            }
        }
    }
    // more peers than the 4 initial picks: the rest is asked in the end-game round
    for n in [5usize, 6, 8] {
        for last in [Beh::Answers, Beh::Silent] {
            let mut peers = vec![Beh::Answers; n];
            peers[n - 1] = last.clone();
            for announce in [false, true] {
                out.push(Cfg { peers: peers.clone(), chain: 0, chain_end: Beh::Answers, announce, send_fail: None, send_answer: 0, via_router: false, poke_ms: None, chain_unadmitted: false, busy: None, slow_send: None, rng_seed: seed });
            }
        }
    }
    // unrelated events during the search; nodes that only know routers (never "Bootstrapped", no refresh timer)
    for via_router in [false, true] {
        for poke in [10u64, 700, 1_499, 1_500, 1_501, 2_000, 2_990] {
            for peers in [vec![Beh::Silent; 3], vec![Beh::Answers, Beh::Silent, Beh::Answers], vec![Beh::Answers; 2]] {
                out.push(Cfg { peers, chain: 0, chain_end: Beh::Answers, announce: true, send_fail: None, send_answer: 0, via_router, poke_ms: Some(poke), chain_unadmitted: false, busy: None, slow_send: None, rng_seed: seed });
            }
        }
        out.push(Cfg { peers: vec![Beh::Answers; 3], chain: 2, chain_end: Beh::Silent, announce: false, send_fail: None, send_answer: 0, via_router, poke_ms: None, chain_unadmitted: false, busy: None, slow_send: None, rng_seed: seed });
    }
    // chains whose nodes the routing table refuses (router addresses): queried by the search all the same
    for chain in 1..=3usize {
        for n in [2usize, 3, 4] {
            let mut peers = vec![Beh::Answers; n];
            peers[n - 1] = Beh::Silent;
            out.push(Cfg { peers, chain, chain_end: Beh::Answers, announce: true, send_fail: None, send_answer: 0, via_router: false, poke_ms: None, chain_unadmitted: true, busy: None, slow_send: None, rng_seed: seed });
        }
    }
    // chains of ever closer nodes
    for chain in 1..=6usize {
        for end in behs.iter() {
            for n in [1usize, 2] {
                out.push(Cfg { peers: vec![Beh::Answers; n], chain, chain_end: end.clone(), announce: chain % 2 == 0, send_fail: None, send_answer: 0, via_router: false, poke_ms: None, chain_unadmitted: false, busy: None, slow_send: None, rng_seed: seed });
            }
        }
    }
    // another search with a large end-game (n far silent nodes named by three extra contacts) runs next to
    // the judged one
    for peers in [vec![Beh::Silent; 2], vec![Beh::Answers, Beh::Silent], vec![Beh::Answers; 3], vec![Beh::Silent; 4]] {
        for off in [500u64, 1_950, 3_440, 4_940] {
            for crowd in tier.pick(vec![60usize], vec![30, 60, 150]) {
                out.push(Cfg { peers: peers.clone(), chain: 0, chain_end: Beh::Answers, announce: false, send_fail: None, send_answer: 0, via_router: false, poke_ms: None, chain_unadmitted: false, busy: Some((off, crowd)), slow_send: None, rng_seed: seed });
            }
        }
    }
    // a socket whose send_to takes time: every query has its own 1.5 s from the instant it left
    // (the whole round leaves within 1.4 s: while the handler is inside the send loop it neither reads answers
    // nor runs timers, and a timeout that expires meanwhile races the answer already queued — outside what the
    // statement quantifies over, see DESIGN.md)
    for n in [2usize, 3] {
        for (delay, lat) in [(400u64, 400u64), (300, 500), (450, 350)] {
            out.push(Cfg { peers: vec![Beh::Answers; n], chain: 0, chain_end: Beh::Answers, announce: false, send_fail: None, send_answer: 0, via_router: false, poke_ms: None, chain_unadmitted: false, busy: None, slow_send: Some((delay, lat)), rng_seed: seed });
        }
    }
    out
}

pub fn run(tier: Tier) -> Report {
    let mut rep = Report::new("C04", "model_checking", tier);
    let seed = 1 + seed();
    let cfgs = configs(tier, seed);
    let outs = par_map(&cfgs, |_, cfg| {
        let (res, viol, facts, _) = run_cfg(cfg, &[None], &[]);
        (sim::trace_hash(&res, ""), res.wire.len() as u64, viol, facts.end.zip(facts.first_query).map(|(e, f)| e - f))
    });
    let mut distinct = std::collections::HashSet::new();
    let mut durations: BTreeSet<u64> = BTreeSet::new();
    for (cfg, (h, wire, viol, dur)) in cfgs.iter().zip(outs.iter()) {
        distinct.insert(*h);
        rep.add("transitions", *wire);
        if let Some(d) = dur {
            durations.insert(*d);
        }
        for (sig, what) in viol {
            rep.violation(sig.clone(), format!("{what} [{:?}]", cfg), json!({"engine":"E1","check":"C04","cfg":cfg_json(cfg),"choices":[]}));
        }
    }
    rep.set("layerA_configurations", cfgs.len() as u64);
    rep.set("distinct_search_durations_ms", json!(durations.iter().take(40).collect::<Vec<_>>()));
    let mut runs = cfgs.len() as u64;
    // send failures: the k-th send after the search started fails, for every k
    let mut sf: Vec<Cfg> = vec![];
    for base in [
        Cfg { peers: vec![Beh::Answers; 3], chain: 0, chain_end: Beh::Answers, announce: true, send_fail: None, send_answer: 0, via_router: false, poke_ms: None, chain_unadmitted: false, busy: None, slow_send: None, rng_seed: seed },
        Cfg { peers: vec![Beh::Answers, Beh::Silent], chain: 3, chain_end: Beh::Answers, announce: true, send_fail: None, send_answer: 0, via_router: false, poke_ms: None, chain_unadmitted: false, busy: None, slow_send: None, rng_seed: seed },
        Cfg { peers: vec![Beh::Silent; 2], chain: 0, chain_end: Beh::Answers, announce: false, send_fail: None, send_answer: 0, via_router: false, poke_ms: None, chain_unadmitted: false, busy: None, slow_send: None, rng_seed: seed },
        // more than 4 answering peers: the search has end-game queries and 6 announces to send
        Cfg { peers: vec![Beh::Answers; 6], chain: 0, chain_end: Beh::Answers, announce: true, send_fail: None, send_answer: 0, via_router: false, poke_ms: None, chain_unadmitted: false, busy: None, slow_send: None, rng_seed: seed },
    ] {
        let kmax = if base.peers.len() > 4 { 20 } else { tier.pick(10, 16) };
        for k in 0..kmax {
            for ans in [0u8, 1] {
                let mut c = base.clone();
                c.send_fail = Some(k);
                c.send_answer = ans;
                sf.push(c);
            }
        }
    }
    let outs = par_map(&sf, |_, cfg| {
        let (res, viol, _, _) = run_cfg(cfg, &[None], &[]);
        (sim::trace_hash(&res, &format!("{:?}", cfg.send_fail)), res.wire.len() as u64, viol)
    });
    for (cfg, (h, wire, viol)) in sf.iter().zip(outs.iter()) {
        distinct.insert(*h);
        rep.add("transitions", *wire);
        for (sig, what) in viol {
            rep.violation(format!("send-failure {sig}"), format!("{what} [{:?}]", cfg), json!({"engine":"E1","check":"C04","cfg":cfg_json(cfg),"choices":[]}));
        }
    }
    rep.set("send_failure_runs", sf.len() as u64);
    runs += sf.len() as u64;
    // deviations
    let fs = fates();
    let picks: Vec<Cfg> = vec![
        Cfg { peers: vec![Beh::Answers, Beh::Answers], chain: 0, chain_end: Beh::Answers, announce: false, send_fail: None, send_answer: 0, via_router: false, poke_ms: None, chain_unadmitted: false, busy: None, slow_send: None, rng_seed: seed },
        Cfg { peers: vec![Beh::Answers, Beh::Silent, Beh::ErrorReply], chain: 0, chain_end: Beh::Answers, announce: true, send_fail: None, send_answer: 0, via_router: false, poke_ms: None, chain_unadmitted: false, busy: None, slow_send: None, rng_seed: seed },
        Cfg { peers: vec![Beh::Answers], chain: 2, chain_end: Beh::Answers, announce: false, send_fail: None, send_answer: 0, via_router: false, poke_ms: None, chain_unadmitted: false, busy: None, slow_send: None, rng_seed: seed },
        Cfg { peers: vec![Beh::Answers, Beh::Answers], chain: 4, chain_end: Beh::Silent, announce: true, send_fail: None, send_answer: 0, via_router: false, poke_ms: None, chain_unadmitted: false, busy: None, slow_send: None, rng_seed: seed },
    ];
    let mut levels = vec![];
    for (i, cfg) in picks.iter().enumerate() {
        let bound = if i < 3 { 2 } else { tier.pick(1, 2) };
        let run_one = |prefix: &[usize]| -> RunOutcome {
            let (res, viol, _, oor) = run_cfg(cfg, &fs, prefix);
            RunOutcome { outcome_hash: sim::trace_hash(&res, ""), wire_events: res.wire.len() as u64, violations: viol, out_of_range: oor, choices: res.choices }
        };
        let s = explore::explore(bound, tier.pick(12_000, 400_000), &run_one);
        runs += s.runs;
        rep.add("transitions", s.wire_events);
        rep.add("choice_points", s.choice_points);
        rep.add("deviation_distinct_outcomes", s.distinct_outcomes);
        levels.push(json!({"cfg":cfg_json(cfg),"bound_requested":bound,"bound_completed":s.completed_bound,"runs":s.runs,"distinct_outcomes":s.distinct_outcomes,"capped":s.capped}));
        for v in s.sample_vectors.iter().take(1) {
            rep.sample(json!({"cfg":cfg_json(cfg),"choices":v}));
        }
        for (sig, what, choices) in s.violations {
            rep.violation(format!("deviation {sig}"), format!("{what} [{:?}]", cfg), json!({"engine":"E1","check":"C04","cfg":cfg_json(cfg),"choices":choices}));
        }
    }
    rep.set("deviation_explorations", json!(levels));
    rep.set("evaluations", runs);
    let d = distinct.len() as u64 + rep.get("deviation_distinct_outcomes");
    rep.set("states", d);
    rep.set("distinct_nontrivial", d);
    rep.set("traces_validated_against_impl", runs);
    rep.sample(json!({"cfg":cfg_json(&cfgs[cfgs.len() / 2])}));
    rep.set("rule", "One real node whose 0..4 (thorough ..6) known peers each answer / stay silent / answer with an error to get_peers (every vector for n<=3), chains of 1..6 ever closer nodes ending answering/silent/erroring, with and without announce; send_to failing or yielding once on the k-th send after the search started for every k < 10 (16); every choice vector with <= 2 deviations over {1,740,760,990,1600 ms, drop} on the search's get_peers and their answers. Oracle in virtual ms: the stream ends within 1.5 s x (named + initial) + 3 s of the first query; all silent => 3.0..3.05 s; at close no unanswered query is younger than 1.5 s; every answer delivered within 1.49 s of its query has its values in the stream; nobody to ask => closes at the call instant.");
    rep
}

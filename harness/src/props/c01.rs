//! C01 — announced peers are found by every other node's search, end to end (engine E1).

use crate::common::*;
use crate::sim::explore::{self, PrefixChooser, RunOutcome};
use crate::sim::{self, Action, ApiKind, Fate, NodeSpec, RunResult, Scenario, When};
use btdht::InfoHash;
use serde_json::{json, Value};
use std::net::SocketAddr;
use std::sync::Arc;

#[derive(Clone, Debug, PartialEq)]
pub struct Cfg {
    pub n: usize,
    pub v6: bool,
    pub port: Option<u16>,
    /// 0 spread, 1 clustered at the info-hash, 2 clustered at the announcer
    pub placement: u8,
    pub announcer: usize,
    pub searcher: usize,
    /// second announcer (announces `announcer2_gap_ms` after the first one's search ended)
    pub announcer2: Option<usize>,
    pub announcer2_gap_ms: u64,
    /// ms between the end of the (last) announcing search and the start of the search
    pub offset_ms: u64,
    /// re-announce by the first announcer at this offset after its first announce ended
    pub reannounce_ms: Option<u64>,
    /// per-link latency matrix index (base-3 digits over ordered pairs) for n <= 3; None = 20 ms
    pub matrix: Option<u32>,
    /// how the application uses the announcing search: 0 reads the stream to its end; 1 drops the stream
    /// at once (fire and forget); 2 drops it after 300 ms; 3 a plain search for the same info-hash is
    /// requested 1 ms before the announcing one on the same node (both read); 4 = 3 with the announcing
    /// stream dropped at once
    pub usage: u8,
    pub rng_seed: u64,
}

pub const LAT3: [u64; 3] = [1, 20, 480];

pub fn node_addr(i: usize, v6: bool) -> SocketAddr {
    if v6 {
        format!("[fd00::{:x}]:6881", i + 1).parse().unwrap()
    } else {
        format!("10.0.0.{}:6881", i + 1).parse().unwrap()
    }
}

pub fn info_hash() -> InfoHash {
    InfoHash::sha1(b"verif-c01")
}

pub fn node_id(cfg: &Cfg, i: usize) -> InfoHash {
    let ih: [u8; 20] = info_hash().into();
    let mut r = SplitMix(0xc01 + i as u64 * 7919);
    match cfg.placement {
        0 => {
            // spread: distinct top bits
            let mut b = r.bytes20();
            b[0] = ((i as u8) << 4) | (b[0] & 0x0f);
            InfoHash::from(b)
        }
        1 => {
            // clustered around the info-hash: share the first 18 bytes
            let mut b = ih;
            b[18] = i as u8 + 1;
            b[19] = r.next() as u8;
            InfoHash::from(b)
        }
        _ => {
            // clustered around the announcer's id (itself spread)
            let mut a = SplitMix(0xc01 + cfg.announcer as u64 * 7919).bytes20();
            a[0] = ((cfg.announcer as u8) << 4) | (a[0] & 0x0f);
            if i != cfg.announcer {
                a[18] ^= i as u8 + 1;
                a[19] = r.next() as u8;
            }
            InfoHash::from(a)
        }
    }
}

pub fn scenario(cfg: &Cfg) -> Scenario {
    let mut sc = Scenario::new(&format!("mesh{:?}", cfg));
    sc.rng_seed = cfg.rng_seed;
    for i in 0..cfg.n {
        sc.nodes.push(NodeSpec {
            addr: node_addr(i, cfg.v6),
            id: Some(node_id(cfg, i)),
            read_only: false,
            announce_port: if i == cfg.announcer || Some(i) == cfg.announcer2 { cfg.port } else { None },
            contacts: (0..cfg.n).filter(|j| *j != i).map(|j| node_addr(j, cfg.v6)).collect(),
            routers: vec![],
            start_ms: 0,
        });
        sc.actions.push((When::At(0), Action::Bootstrapped { node: i, tag: format!("boot{i}") }));
    }
    let ih = info_hash();
    // everybody has 3 s to bootstrap (round trips <= 2 x 480 ms in the matrix alphabet)
    if cfg.usage >= 3 {
        sc.actions.push((When::At(3_999), Action::Search { node: cfg.announcer, info_hash: ih, announce: false, tag: "pre".into() }));
    }
    match cfg.usage {
        1 | 4 => sc.actions.push((When::At(4_000), Action::SearchDrop { node: cfg.announcer, info_hash: ih, announce: true, tag: "ann-dropped".into(), after_ms: 0 })),
        2 => sc.actions.push((When::At(4_000), Action::SearchDrop { node: cfg.announcer, info_hash: ih, announce: true, tag: "ann-dropped".into(), after_ms: 300 })),
        _ => sc.actions.push((When::At(4_000), Action::Search { node: cfg.announcer, info_hash: ih, announce: true, tag: "ann".into() })),
    }
    if matches!(cfg.usage, 1 | 2 | 4) {
        // nobody watches the announcing search end: the searcher starts 30 s later (a lookup in these meshes
        // takes a few seconds at most)
        sc.actions.push((When::At(34_000 + cfg.offset_ms), Action::Search { node: cfg.searcher, info_hash: ih, announce: false, tag: "search".into() }));
        sc.stop_after = vec!["search".into()];
        sc.linger_ms = 10;
        sc.horizon_ms = 34_000 + cfg.offset_ms + 120_000;
        return sc;
    }
    let mut last = "ann".to_string();
    if let Some(a2) = cfg.announcer2 {
        sc.actions.push((When::After { tag: "ann".into(), delay: cfg.announcer2_gap_ms }, Action::Search { node: a2, info_hash: ih, announce: true, tag: "ann2".into() }));
        last = "ann2".into();
    }
    if let Some(re) = cfg.reannounce_ms {
        sc.actions.push((When::After { tag: last.clone(), delay: re }, Action::Search { node: cfg.announcer, info_hash: ih, announce: true, tag: "reann".into() }));
        last = "reann".into();
    }
    sc.actions.push((When::After { tag: last, delay: cfg.offset_ms }, Action::Search { node: cfg.searcher, info_hash: ih, announce: false, tag: "search".into() }));
    sc.stop_after = vec!["search".into()];
    sc.linger_ms = 10;
    sc.horizon_ms = 4_000 + cfg.offset_ms + cfg.reannounce_ms.unwrap_or(0) + cfg.announcer2_gap_ms + 120_000;
    if let Some(m) = cfg.matrix {
        let n = cfg.n;
        let v6 = cfg.v6;
        sc.link_latency = Arc::new(move |a, b| {
            let ia = (0..n).find(|i| node_addr(*i, v6) == a);
            let ib = (0..n).find(|i| node_addr(*i, v6) == b);
            match (ia, ib) {
                (Some(x), Some(y)) if x != y => {
                    // index of the ordered pair (x,y)
                    let k = x * (n - 1) + if y > x { y - 1 } else { y };
                    LAT3[((m / 3u32.pow(k as u32)) % 3) as usize]
                }
                _ => 20,
            }
        });
    }
    sc
}

/// Expected contact address of an announcer as stored by the other nodes.
pub fn expected_addr(cfg: &Cfg, who: usize) -> SocketAddr {
    let mut a = node_addr(who, cfg.v6);
    if let Some(p) = cfg.port {
        a.set_port(p);
    }
    a
}

pub struct Verdict {
    pub violations: Vec<(String, String)>,
    pub outcome: String,
    /// some get_peers of the announcing or searching lookup was answered later than 1.5 s
    pub slow_rtt: bool,
}

/// true if any get_peers sent by `node` within [from, to] got its (first) response delivered
/// later than 1500 ms after it was sent (or never, although it was delivered to a live node).
fn slow_get_peers(res: &RunResult, node: SocketAddr, from: u64, to: u64) -> bool {
    for d in res.wire.iter().filter(|d| d.src == node && d.sent_ms >= from && d.sent_ms <= to) {
        let p = sim::krpc::parse(&d.bytes);
        if !p.is_query("get_peers") {
            continue;
        }
        let answered = res
            .wire
            .iter()
            .filter(|r| r.src == d.dst && r.dst == node && r.sent_ms >= d.sent_ms)
            .filter(|r| sim::krpc::parse(&r.bytes).tid == p.tid)
            .filter_map(|r| r.delivered_ms.first().copied())
            .min();
        match answered {
            Some(t) if t - d.sent_ms <= 1500 => {}
            _ => return true,
        }
    }
    false
}

pub fn judge(cfg: &Cfg, res: &RunResult) -> Verdict {
    let mut v = vec![];
    let items: Vec<SocketAddr> = res.items("search").into_iter().map(|(_, a)| a).collect();
    let want = expected_addr(cfg, cfg.announcer);
    let ann_end = if matches!(cfg.usage, 1 | 2 | 4) { Some(34_000) } else { res.finished("ann") };
    let search_end = res.finished("search");
    let mut outcome = format!("items={:?}", items);
    let mut slow = false;
    for i in 0..cfg.n {
        match res.resolved(&format!("boot{i}")) {
            Some((_, true)) => {}
            other => {
                outcome.push_str(&format!(" boot{i}={:?}", other));
            }
        }
    }
    if !res.panics.is_empty() {
        outcome.push_str(&format!(" panics={}", res.panics.len()));
    }
    match (ann_end, search_end) {
        (Some(_), Some(_)) => {
            let a_addr = node_addr(cfg.announcer, cfg.v6);
            let s_addr = node_addr(cfg.searcher, cfg.v6);
            let (a0, a1) = (res.started("ann").unwrap_or(4_000), ann_end.unwrap());
            let (s0, s1) = (res.started("search").unwrap_or(0), search_end.unwrap());
            slow = slow_get_peers(res, a_addr, a0, a1) || slow_get_peers(res, s_addr, s0, s1);
            if let (Some(r0), Some(r1)) = (res.started("reann"), res.finished("reann")) {
                slow |= slow_get_peers(res, a_addr, r0, r1);
            }
            if let (Some(a2), Some(r0), Some(r1)) = (cfg.announcer2, res.started("ann2"), res.finished("ann2")) {
                slow |= slow_get_peers(res, node_addr(a2, cfg.v6), r0, r1);
            }
            let day = 86_400_000u64;
            // (announcer, expected address, end of its last announcing search)
            let mut wants: Vec<(usize, SocketAddr, u64)> = vec![(cfg.announcer, want, res.finished("reann").unwrap_or(a1))];
            if let (Some(a2), Some(e2)) = (cfg.announcer2, res.finished("ann2")) {
                wants.push((a2, expected_addr(cfg, a2), e2));
            }
            let mut any_live = false;
            for (who, w, last) in &wants {
                let age = s0.saturating_sub(*last);
                if age >= 1_000 && age <= day - 10_000 {
                    any_live = true;
                    if !items.contains(w) {
                        v.push((
                            if slow { "lookup-rtt>1.5s".to_string() } else { "announced-peer-not-found".to_string() },
                            format!("search from node {} {} ms after announcer {}'s last announce does not yield {}; got {:?}", cfg.searcher, age, who, w, items),
                        ));
                    }
                } else if age >= day + 5_000 {
                    for a in &items {
                        if w.ip() == a.ip() {
                            v.push(("expired-peer-still-found".to_string(), format!("search {} ms after announcer {}'s last announce still yields {}", age, who, a)));
                        }
                    }
                }
            }
            // never anything but announcers' addresses in this closed world
            for a in &items {
                if !wants.iter().any(|(_, w, _)| w == a) && any_live {
                    v.push(("unknown-peer-yielded".to_string(), format!("search yields {} which nobody announced", a)));
                }
            }
        }
        _ => {
            v.push(("search-or-announce-did-not-finish".to_string(), format!("ann_end={:?} search_end={:?} (horizon {} ms)", ann_end, search_end, res.end_ms)));
        }
    }
    Verdict { violations: v, outcome, slow_rtt: slow }
}

fn outcome_hash(res: &RunResult, extra: &str) -> u64 {
    // normalised trace: canonical wire keys with delivery offsets + api log
    sim::trace_hash(res, extra)
}

fn eligible_window() -> sim::Eligible {
    // every datagram from the announcer's first get_peers on (t >= 4000 ms)
    Arc::new(|d, p| d.sent_ms >= 4_000 && p.valid)
}

pub fn run_cfg(cfg: &Cfg, fates: &[Option<Fate>], prefix: &[usize]) -> (RunResult, Verdict) {
    let mut sc = scenario(cfg);
    sc.fates = fates.to_vec();
    sc.eligible = Some(eligible_window());
    let mut ch = PrefixChooser { prefix, pos: 0, out_of_range: false };
    let res = sim::run(&sc, vec![], &mut ch);
    let v = judge(cfg, &res);
    (res, v)
}

fn cfg_json(c: &Cfg) -> Value {
    json!({"n":c.n,"v6":c.v6,"port":c.port,"placement":c.placement,"announcer":c.announcer,"searcher":c.searcher,"announcer2":c.announcer2,"announcer2_gap_ms":c.announcer2_gap_ms,"offset_ms":c.offset_ms,"reannounce_ms":c.reannounce_ms,"matrix":c.matrix,"usage":c.usage,"rng_seed":c.rng_seed})
}
fn cfg_parse(v: &Value) -> Cfg {
    Cfg {
        n: v["n"].as_u64().unwrap_or(2) as usize,
        v6: v["v6"].as_bool().unwrap_or(false),
        port: v["port"].as_u64().map(|p| p as u16),
        placement: v["placement"].as_u64().unwrap_or(0) as u8,
        announcer: v["announcer"].as_u64().unwrap_or(0) as usize,
        searcher: v["searcher"].as_u64().unwrap_or(1) as usize,
        announcer2: v["announcer2"].as_u64().map(|p| p as usize),
        announcer2_gap_ms: v["announcer2_gap_ms"].as_u64().unwrap_or(500),
        offset_ms: v["offset_ms"].as_u64().unwrap_or(1000),
        reannounce_ms: v["reannounce_ms"].as_u64(),
        matrix: v["matrix"].as_u64().map(|m| m as u32),
        usage: v["usage"].as_u64().unwrap_or(0) as u8,
        rng_seed: v["rng_seed"].as_u64().unwrap_or(1),
    }
}

pub fn fates_alphabet() -> Vec<Option<Fate>> {
    vec![None, Some(Fate::Deliver(1)), Some(Fate::Deliver(480)), Some(Fate::Deliver(990))]
}

pub fn replay(v: &Value) -> i32 {
    let cfg = cfg_parse(&v["cfg"]);
    let prefix: Vec<usize> = v["choices"].as_array().map(|a| a.iter().map(|x| x.as_u64().unwrap() as usize).collect()).unwrap_or_default();
    let fates = if v["fates"] == "none" { vec![None] } else { fates_alphabet() };
    let mut hashes = vec![];
    let mut code = 0;
    for round in 0..3 {
        let (res, verdict) = run_cfg(&cfg, &fates, &prefix);
        hashes.push(outcome_hash(&res, ""));
        if round == 0 {
            for d in &res.wire {
                let p = sim::krpc::parse(&d.bytes);
                if d.sent_ms >= 4000 {
                    println!("  {:>8} ms {} > {} {} delivered {:?}", d.sent_ms, d.src, d.dst, p.canon_key(), d.delivered_ms);
                }
            }
            for e in &res.api {
                println!("  api {:>8} ms {} {:?}", e.t_ms, e.tag, e.kind);
            }
            println!("outcome: {} slow_rtt={}", verdict.outcome, verdict.slow_rtt);
            for (s, w) in &verdict.violations {
                println!("VIOLATION {s}: {w}");
                code = 1;
            }
        }
    }
    if hashes.iter().any(|h| *h != hashes[0]) {
        eprintln!("machinery error: replay is not deterministic");
        return 2;
    }
    code
}

pub fn run(tier: Tier) -> Report {
    let mut rep = Report::new("C01", "model_checking", tier);
    let seed = seed();
    // ---- layer A: configurations at the default schedule -------------------------------------
    let mut cfgs: Vec<Cfg> = vec![];
    let ns: Vec<usize> = tier.pick(vec![2, 3, 4], vec![2, 3, 4, 5, 7, 9]);
    for &n in &ns {
        for v6 in [false, true] {
            for port in [None, Some(4242u16), Some(443u16), Some(1u16), Some(65535u16)] {
                if matches!(port, Some(443) | Some(1) | Some(65535)) && n != 3 {
                    continue;
                }
                for placement in 0..3u8 {
                    let pairs: Vec<(usize, usize)> = if n <= 4 {
                        (0..n).flat_map(|a| (0..n).filter(move |s| *s != a).map(move |s| (a, s))).collect()
                    } else {
                        // announcer closest to / farthest from the info-hash x every other node
                        let base = Cfg { n, v6, port, placement, announcer: 0, searcher: 1, announcer2: None, announcer2_gap_ms: 500, offset_ms: 1000, reannounce_ms: None, matrix: None, usage: 0, rng_seed: 1 };
                        let ih: [u8; 20] = info_hash().into();
                        let mut order: Vec<usize> = (0..n).collect();
                        order.sort_by_key(|i| sim::peers::xor_dist(&node_id(&base, *i).into(), &ih));
                        let picks = [order[0], order[n - 1]];
                        picks.iter().flat_map(|&a| (0..n).filter(move |s| *s != a).map(move |s| (a, s))).collect()
                    };
                    for (a, s) in pairs {
                        cfgs.push(Cfg { n, v6, port, placement, announcer: a, searcher: s, announcer2: None, announcer2_gap_ms: 500, offset_ms: 1000, reannounce_ms: None, matrix: None, usage: 0, rng_seed: 1 + seed });
                    }
                }
            }
        }
    }
    // two announcers, both orders
    for &n in ns.iter().filter(|n| **n >= 3).take(2) {
        for (a, b) in [(0usize, 1usize), (1, 0)] {
            for v6 in [false, true] {
                cfgs.push(Cfg { n, v6, port: Some(4242), placement: 0, announcer: a, searcher: 2, announcer2: Some(b), announcer2_gap_ms: 500, offset_ms: 1000, reannounce_ms: None, matrix: None, usage: 0, rng_seed: 1 + seed });
            }
        }
    }
    // how the application uses the announcing search (stream dropped at once / after 300 ms, a plain search
    // for the same info-hash already running on the announcer)
    for usage in 1..=4u8 {
        for n in [2usize, 3] {
            for v6 in [false, true] {
                for port in [None, Some(4242u16)] {
                    if tier == Tier::Quick && v6 && port.is_some() {
                        continue;
                    }
                    cfgs.push(Cfg { n, v6, port, placement: 0, announcer: 0, searcher: n - 1, announcer2: None, announcer2_gap_ms: 500, offset_ms: 1000, reannounce_ms: None, matrix: None, usage, rng_seed: 1 + seed });
                }
            }
        }
    }
    // histories
    let offsets: Vec<u64> = tier.pick(
        vec![599_000, 601_000, 1_801_000, 43_200_000, 86_390_000, 86_405_000],
        vec![599_000, 601_000, 1_801_000, 43_200_000, 86_390_000, 86_405_000, 108_000_000],
    );
    for &off in &offsets {
        for v6 in [false, true] {
            cfgs.push(Cfg { n: 2, v6, port: None, placement: 0, announcer: 0, searcher: 1, announcer2: None, announcer2_gap_ms: 500, offset_ms: off, reannounce_ms: None, matrix: None, usage: 0, rng_seed: 1 + seed });
        }
        cfgs.push(Cfg { n: 3, v6: false, port: Some(4242), placement: 1, announcer: 1, searcher: 2, announcer2: None, announcer2_gap_ms: 500, offset_ms: off, reannounce_ms: None, matrix: None, usage: 0, rng_seed: 1 + seed });
    }
    // re-announce at 12 h: still found at 24 h + 5 s after the first announce, gone 24 h + 5 s after the second
    for (re, off) in [(43_200_000u64, 43_205_000u64), (43_200_000, 86_405_000)] {
        cfgs.push(Cfg { n: 2, v6: false, port: None, placement: 0, announcer: 0, searcher: 1, announcer2: None, announcer2_gap_ms: 500, offset_ms: off, reannounce_ms: Some(re), matrix: None, usage: 0, rng_seed: 1 + seed });
    }
    // two announcers an hour apart, the first renews after 12 h; probes where only one of them is still live
    for (n, searcher) in tier.pick(vec![(3usize, 2usize)], vec![(3, 2), (4, 3)]) {
        for off in [3_600_000u64, 48_600_000, 87_000_000] {
            cfgs.push(Cfg { n, v6: false, port: Some(4242), placement: 0, announcer: 0, searcher, announcer2: Some(1), announcer2_gap_ms: 3_600_000, offset_ms: off, reannounce_ms: Some(39_600_000), matrix: None, usage: 0, rng_seed: 1 + seed });
        }
    }
    if tier == Tier::Thorough {
        for n in [5usize, 9] {
            for off in [86_390_000u64, 86_405_000] {
                cfgs.push(Cfg { n, v6: false, port: None, placement: 0, announcer: 0, searcher: n - 1, announcer2: None, announcer2_gap_ms: 500, offset_ms: off, reannounce_ms: None, matrix: None, usage: 0, rng_seed: 1 + seed });
            }
        }
    }
    let base_fates = vec![None];
    let outs = par_map(&cfgs, |_, cfg| {
        let (res, verdict) = run_cfg(cfg, &base_fates, &[]);
        (outcome_hash(&res, ""), verdict, res.wire.len() as u64, res.end_ms)
    });
    let mut distinct = std::collections::HashSet::new();
    let mut transitions = 0u64;
    for (cfg, (h, verdict, wire, _)) in cfgs.iter().zip(outs.iter()) {
        distinct.insert(*h);
        transitions += wire;
        for (sig, what) in &verdict.violations {
            rep.violation(format!("mesh {sig}"), format!("{what} [{:?}]", cfg), json!({"engine":"E1","check":"C01","cfg":cfg_json(cfg),"choices":[],"fates":"none"}));
        }
    }
    rep.set("layerA_configurations_default_schedule", cfgs.len() as u64);
    rep.sample(json!({"layer":"A","cfg":cfg_json(&cfgs[0]),"outcome":outs[0].1.outcome}));
    rep.sample(json!({"layer":"A","cfg":cfg_json(&cfgs[cfgs.len()-1]),"outcome":outs[cfgs.len()-1].1.outcome}));
    let mut runs = cfgs.len() as u64;

    // ---- layer B: all 3^(n(n-1)) per-link latency matrices for n <= 3 -------------------------
    let mut mcfgs: Vec<Cfg> = vec![];
    for (n, count) in [(2usize, 9u32), (3, 729)] {
        for m in 0..count {
            for (a, s) in [(0usize, 1usize), (1, 0)] {
                if n == 3 && tier == Tier::Quick && a == 1 {
                    continue;
                }
                mcfgs.push(Cfg { n, v6: false, port: None, placement: 0, announcer: a, searcher: if n == 3 { 2 } else { s }, announcer2: None, announcer2_gap_ms: 500, offset_ms: 1000, reannounce_ms: None, matrix: Some(m), usage: 0, rng_seed: 1 + seed });
            }
        }
    }
    let outs = par_map(&mcfgs, |_, cfg| {
        let (res, verdict) = run_cfg(cfg, &base_fates, &[]);
        (outcome_hash(&res, ""), verdict, res.wire.len() as u64)
    });
    for (cfg, (h, verdict, wire)) in mcfgs.iter().zip(outs.iter()) {
        distinct.insert(*h);
        transitions += wire;
        for (sig, what) in &verdict.violations {
            rep.violation(format!("matrix {sig}"), format!("{what} [{:?}]", cfg), json!({"engine":"E1","check":"C01","cfg":cfg_json(cfg),"choices":[],"fates":"none"}));
        }
    }
    rep.set("layerB_latency_matrices", mcfgs.len() as u64);
    runs += mcfgs.len() as u64;

    // ---- layer C: per-datagram deviations --------------------------------------------------
    let fates = fates_alphabet();
    let mut ecfgs: Vec<(Cfg, usize)> = vec![];
    let bound = tier.pick(1, 2);
    for (n, a, s, v6, port, placement) in [(2usize, 0usize, 1usize, false, None, 0u8), (3, 0, 2, false, Some(4242u16), 0), (3, 2, 1, true, None, 1), (4, 1, 3, false, None, 2)] {
        let b = if n >= 4 { 1 } else if n == 2 { 2 } else { bound };
        ecfgs.push((Cfg { n, v6, port, placement, announcer: a, searcher: s, announcer2: None, announcer2_gap_ms: 500, offset_ms: 1000, reannounce_ms: None, matrix: None, usage: 0, rng_seed: 1 + seed }, b));
    }
    let mut levels = vec![];
    for (cfg, b) in &ecfgs {
        let run_one = |prefix: &[usize]| -> RunOutcome {
            let mut sc = scenario(cfg);
            sc.fates = fates.clone();
            sc.eligible = Some(eligible_window());
            let mut ch = PrefixChooser { prefix, pos: 0, out_of_range: false };
            let res = sim::run(&sc, vec![], &mut ch);
            let verdict = judge(cfg, &res);
            RunOutcome {
                outcome_hash: outcome_hash(&res, ""),
                wire_events: res.wire.len() as u64,
                violations: verdict.violations,
                out_of_range: ch.out_of_range,
                choices: res.choices,
            }
        };
        let cap = tier.pick(6_000u64, 400_000u64);
        let s = explore::explore(*b, cap, &run_one);
        runs += s.runs;
        transitions += s.wire_events;
        rep.add("choice_points", s.choice_points);
        levels.push(json!({"cfg":cfg_json(cfg),"bound_requested":b,"bound_completed":s.completed_bound,"runs":s.runs,"runs_per_level":s.per_level_runs,"distinct_outcomes":s.distinct_outcomes,"capped":s.capped}));
        rep.add("layerC_distinct_outcomes", s.distinct_outcomes);
        for v in s.sample_vectors.iter().take(1) {
            rep.sample(json!({"layer":"C","cfg":cfg_json(cfg),"choices":v}));
        }
        for (sig, what, choices) in s.violations {
            rep.violation(format!("deviation {sig}"), format!("{what} [{:?}]", cfg), json!({"engine":"E1","check":"C01","cfg":cfg_json(cfg),"choices":choices,"fates":"alphabet"}));
        }
    }
    rep.set("layerC_explorations", json!(levels));
    rep.set("evaluations", runs);
    rep.set("states", distinct.len() as u64 + rep.get("layerC_distinct_outcomes"));
    rep.set("distinct_nontrivial", distinct.len() as u64 + rep.get("layerC_distinct_outcomes"));
    rep.set("transitions", transitions);
    rep.set("traces_validated_against_impl", runs);
    rep.set("rule", "Every run is one execution of real MainlineDht nodes (full mesh) on the in-memory network. Layer A: every configuration of the stated product at the default schedule incl. 10 min .. 30 h histories; layer B: every per-link latency matrix over {1,20,480} ms for n<=3; layer C: every choice vector with <= bound deviations over per-datagram latencies {20,1,480,990} ms for all datagrams from the announcer's first get_peers on. states/distinct_nontrivial = distinct normalised traces (wire + API log).");
    rep.assume("latency alphabet and 1 ms grid; task interleavings at await points of a single-threaded runtime with a fixed select! seed; no loss (premise)");
    rep.assume("offsets < 1 s after the announcing search and the window 24 h +- 10 s are not asserted");
    rep
}

//! C06 — announce tokens: bound to the requester IP, valid >= 10 min, dead by 30 min.
//! E2: closure of the real TokenStore's abstract state space under a small alphabet.
//! (The E1 binding through the network handler lives in sim-based `c06_binding`.)

use crate::common::*;
use crate::space::{self, Step};
use btdht::verif::{clock, Token, TokenStore};
use btdht::InfoHash;
use serde_json::{json, Value};
use std::net::IpAddr;
use std::time::Duration;

const T0_MS: u64 = 3_600_000;

#[derive(Clone)]
pub struct St {
    store: TokenStore,
    now_ms: u64,
    /// last token handed to ipA that we follow, with the instant those bytes were last issued
    tracked: Option<([u8; 20], u64)>,
}

#[derive(Clone, Debug)]
pub enum Ev {
    /// get_peers from A: issue and follow the token
    CheckoutTrack,
    /// get_peers from A whose token we do not follow (unless it is the same bytes: re-issue)
    CheckoutQuiet,
    /// other traffic: get_peers from B
    Touch,
    /// announce from A with the followed token (rotates lazily as a side effect)
    CheckinA,
    /// announce from B with A's token
    CheckinB,
    /// announce from A with a never-issued token
    CheckinBogus,
    Advance(u64),
}

fn token_for(ip: IpAddr, secret: u32) -> [u8; 20] {
    let mut buf = vec![];
    match ip {
        IpAddr::V4(a) => buf.extend_from_slice(&a.octets()),
        IpAddr::V6(a) => buf.extend_from_slice(&a.octets()),
    }
    buf.extend_from_slice(&secret.to_be_bytes());
    InfoHash::sha1(&buf).into()
}

fn set_clock(ms: u64) {
    clock::set(Some(Duration::from_millis(ms)));
}

struct Ctx {
    ip_a: IpAddr,
    ip_b: IpAddr,
    /// ip_a with one bit changed: the lowest and the highest bit of every octet in turn
    variants: Vec<IpAddr>,
}

fn variants_of(ip: IpAddr) -> Vec<IpAddr> {
    let mut v = vec![];
    match ip {
        IpAddr::V4(a) => {
            for i in 0..4 {
                for bit in [0x01u8, 0x80] {
                    let mut o = a.octets();
                    o[i] ^= bit;
                    v.push(IpAddr::V4(o.into()));
                }
            }
        }
        IpAddr::V6(a) => {
            for i in 0..16 {
                for bit in [0x01u8, 0x80] {
                    let mut o = a.octets();
                    o[i] ^= bit;
                    v.push(IpAddr::V6(o.into()));
                }
            }
        }
    }
    v
}

/// Offsets at which the future of the followed token is looked at when two states are compared.
const LOOKAHEAD_MS: [u64; 8] = [0, 300_000, 600_000, 900_000, 1_200_000, 1_500_000, 1_800_000, 2_100_000];

impl Ctx {
    fn key(&self, s: &St) -> u128 {
        set_clock(s.now_ms);
        let (cur, last, since) = s.store.verif_snapshot();
        let since = (since.as_millis() as u64).min(1_200_000);
        let (age, rel) = match s.tracked {
            None => (0u64, 3u64),
            Some((tok, at)) => {
                let age = (s.now_ms - at).min(1_800_000);
                let rel = if tok == token_for(self.ip_a, cur) {
                    0
                } else if tok == token_for(self.ip_a, last) {
                    1
                } else {
                    2
                };
                (age, rel)
            }
        };
        // Observational part of the key: whether the followed token would be accepted from A after
        // waiting d more (on a copy). On the unchanged store this is a function of (cur, last, since,
        // rel) and adds no state; it keeps apart states that differ in a field the snapshot hook does
        // not show (two states are only merged when their token has the same future).
        let mut fp = 0u128;
        if let Some((tok, _)) = s.tracked {
            for (k, d) in LOOKAHEAD_MS.iter().enumerate() {
                set_clock(s.now_ms + d);
                let mut c = s.store;
                if c.checkin(self.ip_a, Token::from(tok)) {
                    fp |= 1 << k;
                }
            }
            set_clock(s.now_ms);
        }
        ((since as u128) << 64) | (fp << 96) | ((age as u128) << 8) | rel as u128
    }

    /// Oracle evaluated on a copy of the store in state `s` (the copy absorbs lazy rotation).
    fn probe(&self, s: &St) -> Result<u8, (String, String)> {
        set_clock(s.now_ms);
        let mut class = 0u8;
        if let Some((tok, at)) = s.tracked {
            let age = s.now_ms - at;
            let mut c = s.store;
            let ok = c.checkin(self.ip_a, Token::from(tok));
            if age <= 600_000 {
                class = 1;
                if !ok {
                    return Err((
                        "token-rejected-within-10min".into(),
                        format!("token issued {} ms ago to {} is refused", age, self.ip_a),
                    ));
                }
            } else if age >= 1_800_000 {
                class = 2;
                if ok {
                    return Err((
                        "token-accepted-after-30min".into(),
                        format!("token issued {} ms ago to {} is still accepted", age, self.ip_a),
                    ));
                }
            } else {
                class = if ok { 3 } else { 4 };
            }
            let mut c = s.store;
            if c.checkin(self.ip_b, Token::from(tok)) {
                return Err((
                    "token-accepted-from-other-ip".into(),
                    format!("token issued to {} accepted from {}", self.ip_a, self.ip_b),
                ));
            }
            for other in &self.variants {
                let mut c = s.store;
                if c.checkin(*other, Token::from(tok)) {
                    return Err((
                        "token-accepted-from-other-ip".into(),
                        format!("token issued to {} accepted from {} (one bit of the address changed)", self.ip_a, other),
                    ));
                }
            }
            let mut flipped = tok;
            flipped[19] ^= 1;
            let mut c = s.store;
            if c.checkin(self.ip_a, Token::from(flipped)) {
                return Err(("never-issued-token-accepted".into(), "tracked token with one bit flipped accepted".into()));
            }
        }
        // a token handed to B right now, presented by A
        let mut c = s.store;
        let tb: [u8; 20] = c.checkout(self.ip_b).into();
        if c.checkin(self.ip_a, Token::from(tb)) {
            return Err((
                "token-accepted-from-other-ip".into(),
                format!("fresh token of {} accepted from {}", self.ip_b, self.ip_a),
            ));
        }
        // and it must be accepted from B at once (age 0)
        if !c.checkin(self.ip_b, Token::from(tb)) {
            return Err(("token-rejected-within-10min".into(), "fresh token refused at age 0".into()));
        }
        let mut c = s.store;
        if c.checkin(self.ip_a, Token::from([0u8; 20])) {
            return Err(("never-issued-token-accepted".into(), "all-zero token accepted".into()));
        }
        Ok(class)
    }

    fn step(&self, s: &St, e: &Ev) -> Step<St> {
        let mut n = s.clone();
        set_clock(n.now_ms);
        match e {
            Ev::CheckoutTrack => {
                let t: [u8; 20] = n.store.checkout(self.ip_a).into();
                n.tracked = Some((t, n.now_ms));
            }
            Ev::CheckoutQuiet => {
                let t: [u8; 20] = n.store.checkout(self.ip_a).into();
                match n.tracked {
                    Some((tok, _)) if tok == t => n.tracked = Some((t, n.now_ms)),
                    None => return Step::Disabled,
                    _ => {}
                }
            }
            Ev::Touch => {
                let _ = n.store.checkout(self.ip_b);
            }
            Ev::CheckinA => match n.tracked {
                Some((tok, _)) => {
                    let _ = n.store.checkin(self.ip_a, Token::from(tok));
                }
                None => return Step::Disabled,
            },
            Ev::CheckinB => match n.tracked {
                Some((tok, _)) => {
                    let _ = n.store.checkin(self.ip_b, Token::from(tok));
                }
                None => return Step::Disabled,
            },
            Ev::CheckinBogus => {
                let _ = n.store.checkin(self.ip_a, Token::from([7u8; 20]));
            }
            Ev::Advance(ms) => {
                n.now_ms += ms;
            }
        }
        match self.probe(&n) {
            Ok(c) => Step::Next(n, c),
            Err((signature, what)) => Step::Violation { signature, what },
        }
    }
}

fn ips(family: &str) -> (IpAddr, IpAddr) {
    match family {
        "v4" => ("10.0.0.1".parse().unwrap(), "10.0.0.2".parse().unwrap()),
        "v6" => ("fd00::1".parse().unwrap(), "fd00::2".parse().unwrap()),
        // pairs of different addresses that embed the same IPv4 address
        "v6-mapped-vs-compatible" => ("::ffff:10.0.0.1".parse().unwrap(), "::10.0.0.1".parse().unwrap()),
        "v4-vs-v6-mapped" => ("10.0.0.1".parse().unwrap(), "::ffff:10.0.0.1".parse().unwrap()),
        "v6-loopback-vs-mapped" => ("::1".parse().unwrap(), "::ffff:0.0.0.1".parse().unwrap()),
        _ => ("10.0.0.1".parse().unwrap(), "fd00::2".parse().unwrap()),
    }
}

fn events(steps_ms: &[u64]) -> Vec<Ev> {
    let mut v = vec![
        Ev::CheckoutTrack,
        Ev::CheckoutQuiet,
        Ev::Touch,
        Ev::CheckinA,
        Ev::CheckinB,
        Ev::CheckinBogus,
    ];
    for s in steps_ms {
        v.push(Ev::Advance(*s));
    }
    v
}

fn initial() -> St {
    set_clock(T0_MS);
    St { store: TokenStore::new(), now_ms: T0_MS, tracked: None }
}

pub fn replay(v: &Value) -> i32 {
    let family = v["family"].as_str().unwrap_or("v4");
    let (ip_a, ip_b) = ips(family);
    let ctx = Ctx { ip_a, ip_b, variants: variants_of(ip_a) };
    let mut s = initial();
    println!("replay C06 family={family}");
    for e in v["events"].as_array().cloned().unwrap_or_default() {
        let ev = match e["ev"].as_str().unwrap_or("") {
            "CheckoutTrack" => Ev::CheckoutTrack,
            "CheckoutQuiet" => Ev::CheckoutQuiet,
            "Touch" => Ev::Touch,
            "CheckinA" => Ev::CheckinA,
            "CheckinB" => Ev::CheckinB,
            "CheckinBogus" => Ev::CheckinBogus,
            _ => Ev::Advance(e["ms"].as_u64().unwrap_or(0)),
        };
        match ctx.step(&s, &ev) {
            Step::Next(n, c) => {
                println!("  {:?} -> now={}ms class={}", ev, n.now_ms, c);
                s = n;
            }
            Step::Disabled => println!("  {:?} disabled", ev),
            Step::Violation { signature, what } => {
                println!("  {:?} -> VIOLATION {signature}: {what}", ev);
                return 1;
            }
        }
    }
    0
}

fn ev_json(e: &Ev) -> Value {
    match e {
        Ev::Advance(ms) => json!({"ev":"Advance","ms":ms}),
        other => json!({"ev": format!("{:?}", other)}),
    }
}

pub fn run(tier: Tier, rep: &mut Report) {
    let runs: Vec<(&str, Vec<u64>)> = match tier {
        Tier::Quick => vec![
            ("v4", vec![1_000, 299_000, 300_000, 599_000, 600_000, 601_000]),
            ("v6", vec![300_000, 599_000, 600_000, 601_000]),
            ("v6-mapped-vs-compatible", vec![600_000, 601_000]),
            ("v4-vs-v6-mapped", vec![600_000, 601_000]),
            ("v6-loopback-vs-mapped", vec![600_000, 601_000]),
        ],
        Tier::Thorough => vec![
            ("v4", vec![500, 1_000, 299_000, 300_000, 599_000, 600_000, 601_000]),
            ("v6", vec![500, 1_000, 299_000, 300_000, 599_000, 600_000, 601_000]),
            ("mixed", vec![1_000, 299_000, 300_000, 599_000, 600_000, 601_000]),
            ("v6-mapped-vs-compatible", vec![300_000, 599_000, 600_000, 601_000]),
            ("v4-vs-v6-mapped", vec![300_000, 599_000, 600_000, 601_000]),
            ("v6-loopback-vs-mapped", vec![300_000, 599_000, 600_000, 601_000]),
        ],
    };
    let mut all_closed = true;
    for (family, steps) in runs {
        let (ip_a, ip_b) = ips(family);
        let ctx = Ctx { ip_a, ip_b, variants: variants_of(ip_a) };
        let evs = events(&steps);
        let res = space::bfs(
            vec![initial()],
            &evs,
            &|s| ctx.key(s),
            &|s, e| ctx.step(s, e),
            &space::Cfg { max_depth: u32::MAX, max_states: 60_000_000, max_violations: 4 },
        );
        rep.add("states", res.states);
        rep.add("transitions", res.transitions);
        rep.add("e2_must_accept_probes", res.classes[1]);
        rep.add("e2_must_reject_probes", res.classes[2]);
        rep.add("e2_free_accepted", res.classes[3]);
        rep.add("e2_free_rejected", res.classes[4]);
        all_closed &= res.closed;
        let mut runs_info = rep.coverage.get("e2_runs").cloned().unwrap_or(json!([]));
        runs_info.as_array_mut().unwrap().push(json!({
            "family": family, "steps_ms": steps, "states": res.states, "transitions": res.transitions,
            "max_depth": res.depth, "closed": res.closed, "capped": res.capped,
        }));
        rep.set("e2_runs", runs_info);
        for (_, t) in res.sample_traces.iter().take(2) {
            rep.sample(json!({"engine":"E2","family":family,"events": t.iter().map(ev_json).collect::<Vec<_>>()}));
        }
        for f in res.violations {
            rep.violation(
                format!("tokenstore {} family={}", f.signature, family),
                format!("{} after {} events", f.what, f.trace.len()),
                json!({"engine":"E2","check":"C06","family":family,"events": f.trace.iter().map(ev_json).collect::<Vec<_>>()}),
            );
        }
    }
    rep.set("e2_closure_reached", all_closed);
    clock::set(None);
}

//! C13 — KRPC wire codec conforms to BEP5/BEP32 and round-trips every message (engine E3).

use crate::benc::{self, Val};
use crate::common::*;
use btdht::message::*;
use btdht::verif::NodeHandle;
use btdht::InfoHash;
use serde_json::{json, Value};
use std::collections::HashSet;
use std::net::SocketAddr;

fn tids(full: bool) -> Vec<Vec<u8>> {
    let lens: &[usize] = if full { &[0, 1, 2, 4, 8, 20, 32] } else { &[0, 2, 8, 32] };
    let mut out: Vec<Vec<u8>> = vec![];
    for &l in lens {
        let pats: Vec<Vec<u8>> = vec![
            (0..l).map(|i| b'a' + (i % 26) as u8).collect(),
            vec![0u8; l],
            vec![0xffu8; l],
            (0..l).map(|i| b"1:23:4e5:"[i % 9]).collect(),
            (0..l).map(|i| b"edli"[i % 4]).collect(),
        ];
        for p in pats {
            if !out.contains(&p) {
                out.push(p);
            }
        }
    }
    out
}

fn ids(full: bool) -> Vec<InfoHash> {
    let mut r = SplitMix(seed() ^ 0x1d5);
    let mut v = vec![
        InfoHash::from([0u8; 20]),
        InfoHash::from(*b"abcdefghij0123456789"),
        InfoHash::from(r.bytes20()),
    ];
    if full {
        v.push(InfoHash::from([0xffu8; 20]));
        v.push(InfoHash::from(*b"12345678901234567890"));
        v.push(InfoHash::from(*b"4:spam4:eggsd3:cow3e"));
    }
    v
}

fn v4(i: usize) -> SocketAddr {
    SocketAddr::from(([10, 0, (i >> 8) as u8, i as u8], [0u16, 1, 6881, 65535][i % 4]))
}
fn v6(i: usize) -> SocketAddr {
    let mut o = [0u8; 16];
    if i % 4 == 1 {
        // IPv4-mapped (::ffff:a.b.c.d): still an 18-byte IPv6 contact on the wire
        o[10] = 0xff;
        o[11] = 0xff;
        o[12] = 10;
        o[15] = i as u8;
        return SocketAddr::from((o, 6881));
    }
    if i % 4 == 3 {
        // IPv4-compatible (::a.b.c.d)
        o[12] = 10;
        o[15] = i as u8;
        return SocketAddr::from((o, 51413));
    }
    o[0] = 0xfd;
    o[15] = i as u8;
    o[7] = 0xff;
    SocketAddr::from((o, [65535u16, 6881, 1, 0][i % 4]))
}
fn node4(i: usize) -> NodeHandle {
    let mut id = [i as u8; 20];
    id[19] = 0x3a; // ':'
    NodeHandle::new(InfoHash::from(id), v4(i))
}
fn node6(i: usize) -> NodeHandle {
    let mut id = [0xf0 ^ i as u8; 20];
    id[0] = b'e';
    NodeHandle::new(InfoHash::from(id), v6(i))
}

const WANTS: [Option<Want>; 4] = [None, Some(Want::V4), Some(Want::V6), Some(Want::Both)];

/// The enumerated message space: (label, message).
pub fn corpus(tier: Tier) -> Vec<(String, Message)> {
    let full = tier == Tier::Thorough;
    let t_all = tids(true);
    let t_some = tids(full);
    let i_all = ids(true);
    let i_some = ids(full);
    let mut out: Vec<(String, Message)> = vec![];
    let mut push = |label: String, tid: &Vec<u8>, body: MessageBody| {
        out.push((label, Message { transaction_id: tid.clone(), body }));
    };
    for t in &t_all {
        for id in &i_all {
            push("ping".into(), t, MessageBody::Request(Request::Ping(PingRequest { id: *id })));
        }
    }
    for t in &t_some {
        for id in &i_some {
            for target in &i_some {
                for want in WANTS {
                    push(format!("find_node want={want:?}"), t, MessageBody::Request(Request::FindNode(FindNodeRequest { id: *id, target: *target, want })));
                    push(format!("get_peers want={want:?}"), t, MessageBody::Request(Request::GetPeers(GetPeersRequest { id: *id, info_hash: *target, want })));
                }
                for port in [None, Some(0u16), Some(1), Some(6881), Some(65535)] {
                    for token in [vec![], vec![b'x'], (0..20u8).collect::<Vec<u8>>(), vec![b'e'; 64]] {
                        push(format!("announce_peer port={port:?} token_len={}", token.len()), t, MessageBody::Request(Request::AnnouncePeer(AnnouncePeerRequest { id: *id, info_hash: *target, port, token })));
                    }
                }
            }
        }
    }
    let t_resp: Vec<Vec<u8>> = if full { t_some.clone() } else { vec![vec![], b"aa".to_vec(), vec![0xff; 8]] };
    for t in &t_resp {
        for id in i_some.iter().take(2) {
            for token in [None, Some(vec![]), Some(vec![b'1']), Some((100..120u8).collect::<Vec<u8>>()), Some(vec![b':'; 64])] {
                for nv in [0usize, 1, 2, 3, 4] {
                    // nv == 4: the same peer listed twice (adjacent and apart)
                    let values: Vec<SocketAddr> = if nv == 4 { vec![v4(1), v4(1), v6(2), v4(1)] } else { (0..nv).map(|i| if i % 2 == 0 { v4(i + 1) } else { v6(i + 1) }).collect() };
                    for n4 in [0usize, 1, 2, 8, 50] {
                        for n6 in [0usize, 1, 8] {
                            // keep the response within one datagram's worth of sanity (not required by C13, only to stay realistic)
                            push(
                                format!("response token={:?} values={nv} nodes={n4} nodes6={n6}", token.as_ref().map(|t| t.len())),
                                t,
                                MessageBody::Response(Response {
                                    id: *id,
                                    values: values.clone(),
                                    nodes_v4: (0..n4).map(node4).collect(),
                                    nodes_v6: (0..n6).map(node6).collect(),
                                    token: token.clone(),
                                }),
                            );
                        }
                    }
                }
            }
        }
    }
    for t in &t_some {
        for code in [0u8, 1, 201, 202, 203, 204, 255] {
            for text in ["", "A Generic Error Ocurred", "chyba: příliš žluťoučký kůň \u{1F40E}"] {
                push(format!("error code={code}"), t, MessageBody::Error(Error { code, message: text.to_string() }));
            }
        }
    }
    out
}

fn permutations(n: usize) -> Vec<Vec<usize>> {
    fn rec(cur: &mut Vec<usize>, used: &mut Vec<bool>, n: usize, out: &mut Vec<Vec<usize>>) {
        if cur.len() == n {
            out.push(cur.clone());
            return;
        }
        for i in 0..n {
            if !used[i] {
                used[i] = true;
                cur.push(i);
                rec(cur, used, n, out);
                cur.pop();
                used[i] = false;
            }
        }
    }
    let mut out = vec![];
    rec(&mut vec![], &mut vec![false; n], n, &mut out);
    out
}

fn permute(d: &[(Vec<u8>, Val)], p: &[usize]) -> Vec<(Vec<u8>, Val)> {
    p.iter().map(|&i| d[i].clone()).collect()
}

fn inner_key(v: &Val) -> Option<&'static str> {
    for k in ["a", "r"] {
        if matches!(v.get(k), Some(Val::Dict(_))) {
            return Some(k);
        }
    }
    None
}

/// All variants of the canonical value obtained by permuting the keys of the top-level dict and of
/// the inner argument/response dict (each level separately, the other canonical).
fn key_permutation_variants(canon: &Val) -> Vec<Vec<u8>> {
    let mut out = vec![];
    if let Val::Dict(top) = canon {
        for p in permutations(top.len()) {
            out.push(Val::Dict(permute(top, &p)).encode());
        }
        if let Some(k) = inner_key(canon) {
            if let Some(Val::Dict(inner)) = canon.get(k) {
                for p in permutations(inner.len()) {
                    let mut c = canon.clone();
                    *c.get_mut(k).unwrap() = Val::Dict(permute(inner, &p));
                    out.push(c.encode());
                    // both levels non-canonical at once: reversed top level
                    if let Val::Dict(t) = &c {
                        let mut t = t.clone();
                        t.reverse();
                        out.push(Val::Dict(t).encode());
                    }
                }
            }
        }
    }
    out
}

fn unknown_key_variants(canon: &Val) -> Vec<Vec<u8>> {
    let keys = ["v", "ip", "ro", "noseed", "scrape", "name", "seed", "zz", "0", "A"];
    let vals = vec![
        Val::s("UT\x01\x02"),
        Val::Bytes(vec![b'U', b'T', 0xb0, 0xd5, 0xff, 0xfe]),
        Val::Bytes(vec![]),
        Val::Int(i64::MAX),
        Val::Int(i64::MIN),
        Val::Int(0),
        Val::List(vec![Val::Int(1), Val::s("x"), Val::List(vec![])]),
        Val::dict(vec![("a", Val::Int(1)), ("b", Val::dict(vec![]))]),
    ];
    let mut out = vec![];
    let insert_all = |d: &Vec<(Vec<u8>, Val)>, emit: &mut dyn FnMut(Vec<(Vec<u8>, Val)>)| {
        for k in keys {
            if d.iter().any(|(kk, _)| kk == k.as_bytes()) {
                continue;
            }
            for v in &vals {
                // sorted position
                let mut s = d.clone();
                let pos = s.iter().position(|(kk, _)| kk.as_slice() > k.as_bytes()).unwrap_or(s.len());
                s.insert(pos, (k.as_bytes().to_vec(), v.clone()));
                emit(s);
            }
            // every position with one value (non-canonical orders)
            for pos in 0..=d.len() {
                let mut s = d.clone();
                s.insert(pos, (k.as_bytes().to_vec(), vals[0].clone()));
                emit(s);
            }
        }
    };
    if let Val::Dict(top) = canon {
        insert_all(top, &mut |d| out.push(Val::Dict(d).encode()));
        if let Some(k) = inner_key(canon) {
            if let Some(Val::Dict(inner)) = canon.get(k) {
                insert_all(inner, &mut |d| {
                    let mut c = canon.clone();
                    *c.get_mut(k).unwrap() = Val::Dict(d);
                    out.push(c.encode());
                });
            }
        }
    }
    out
}

pub fn rejections() -> Vec<(String, Vec<u8>)> {
    let id = Val::b(&[b'i'; 20]);
    let ih = Val::b(&[b'h'; 20]);
    let tok = Val::s("tok");
    let mut out: Vec<(String, Vec<u8>)> = vec![];
    let q = |name: &str, args: Vec<(&str, Val)>| -> Vec<u8> {
        Val::dict(vec![("t", Val::s("aa")), ("y", Val::s("q")), ("q", Val::s(name)), ("a", Val::dict(args))]).canon().encode()
    };
    // arguments lacking what the named method requires
    out.push(("ping without id".into(), q("ping", vec![])));
    out.push(("find_node without target".into(), q("find_node", vec![("id", id.clone())])));
    out.push(("find_node with info_hash instead of target".into(), q("find_node", vec![("id", id.clone()), ("info_hash", ih.clone())])));
    out.push(("get_peers without info_hash".into(), q("get_peers", vec![("id", id.clone())])));
    out.push(("get_peers with target instead of info_hash".into(), q("get_peers", vec![("id", id.clone()), ("target", ih.clone())])));
    out.push(("announce_peer without token".into(), q("announce_peer", vec![("id", id.clone()), ("info_hash", ih.clone()), ("port", Val::Int(1))])));
    out.push(("announce_peer without info_hash".into(), q("announce_peer", vec![("id", id.clone()), ("token", tok.clone()), ("port", Val::Int(1))])));
    out.push(("announce_peer get_peers args".into(), q("announce_peer", vec![("id", id.clone()), ("info_hash", ih.clone())])));
    out.push(("announce_peer find_node args".into(), q("announce_peer", vec![("id", id.clone()), ("target", ih.clone())])));
    out.push(("query without a".into(), Val::dict(vec![("t", Val::s("aa")), ("y", Val::s("q")), ("q", Val::s("ping"))]).canon().encode()));
    out.push(("query without q".into(), Val::dict(vec![("t", Val::s("aa")), ("y", Val::s("q")), ("a", Val::dict(vec![("id", id.clone())]))]).canon().encode()));
    out.push(("response without r".into(), Val::dict(vec![("t", Val::s("aa")), ("y", Val::s("r"))]).canon().encode()));
    out.push(("error without e".into(), Val::dict(vec![("t", Val::s("aa")), ("y", Val::s("e"))]).canon().encode()));
    // ids that are not 20 bytes, in every id position
    for len in [0usize, 1, 19, 21, 40] {
        let bad = Val::Bytes(vec![b'x'; len]);
        out.push((format!("ping id len {len}"), q("ping", vec![("id", bad.clone())])));
        out.push((format!("find_node id len {len}"), q("find_node", vec![("id", bad.clone()), ("target", ih.clone())])));
        out.push((format!("find_node target len {len}"), q("find_node", vec![("id", id.clone()), ("target", bad.clone())])));
        out.push((format!("get_peers id len {len}"), q("get_peers", vec![("id", bad.clone()), ("info_hash", ih.clone())])));
        out.push((format!("get_peers info_hash len {len}"), q("get_peers", vec![("id", id.clone()), ("info_hash", bad.clone())])));
        out.push((format!("announce_peer id len {len}"), q("announce_peer", vec![("id", bad.clone()), ("info_hash", ih.clone()), ("port", Val::Int(1)), ("token", tok.clone())])));
        out.push((format!("announce_peer info_hash len {len}"), q("announce_peer", vec![("id", id.clone()), ("info_hash", bad.clone()), ("port", Val::Int(1)), ("token", tok.clone())])));
        out.push((format!("response id len {len}"), Val::dict(vec![("t", Val::s("aa")), ("y", Val::s("r")), ("r", Val::dict(vec![("id", bad.clone())]))]).canon().encode()));
    }
    // node lists whose length is not a multiple of the entry size: every residue
    for (key, entry) in [("nodes", 26usize), ("nodes6", 38usize)] {
        for k in 0..3usize {
            for r in 1..entry {
                let len = k * entry + r;
                out.push((
                    format!("{key} length {len}"),
                    Val::dict(vec![("t", Val::s("aa")), ("y", Val::s("r")), ("r", Val::dict(vec![("id", id.clone()), (key, Val::Bytes(vec![7u8; len]))]))]).canon().encode(),
                ));
            }
        }
    }
    out
}

pub fn replay(v: &Value) -> i32 {
    let bytes = unhex(v["bytes"].as_str().unwrap_or(""));
    println!("input: {}", String::from_utf8_lossy(&bytes));
    match Message::decode(&bytes) {
        Ok(m) => {
            println!("decode -> {:?}", m);
            if let Ok(e) = m.encode() {
                println!("re-encode: {}", String::from_utf8_lossy(&e));
            }
        }
        Err(e) => println!("decode -> Err({e})"),
    }
    if v["expect"] == "reject" {
        return if Message::decode(&bytes).is_ok() { 1 } else { 0 };
    }
    if let Some(h) = v["expect_encoding"].as_str() {
        let want = unhex(h);
        return match Message::decode(&bytes) {
            Ok(m) if m.encode().ok() == Some(want) => 0,
            _ => 1,
        };
    }
    0
}

pub fn run(tier: Tier) -> Report {
    let mut rep = Report::new("C13", "exploration", tier);
    let corpus = corpus(tier);
    let perm_stride = tier.pick(2, 1);
    struct Part {
        evals: u64,
        enc: u64,
        perms: u64,
        unknown: u64,
        distinct: HashSet<u64>,
        viol: Vec<(String, String, Value)>,
    }
    let idx: Vec<usize> = (0..corpus.len()).collect();
    let chunks: Vec<&[usize]> = idx.chunks(64).collect();
    let parts = par_map(&chunks, |_, chunk| {
        let mut p = Part { evals: 0, enc: 0, perms: 0, unknown: 0, distinct: HashSet::new(), viol: vec![] };
        for &i in chunk.iter() {
            let (label, m) = &corpus[i];
            let kind = label.split(' ').next().unwrap_or("").to_string();
            let reference = benc::reference_encode(m);
            p.evals += 1;
            p.enc += 1;
            p.distinct.insert(hash64(&reference));
            match m.encode() {
                Ok(e) if e == reference => {}
                Ok(e) => {
                    p.viol.push((format!("encoding-differs-from-bep kind={kind}"), format!("{label}: encoder emits {} but BEP5/32 prescribes {}", String::from_utf8_lossy(&e), String::from_utf8_lossy(&reference)), json!({"engine":"E3","check":"C13","bytes":hex(&reference),"expect_encoding":hex(&reference)})));
                    continue;
                }
                Err(e) => {
                    p.viol.push((format!("encoder-fails kind={kind}"), format!("{label}: encode error {e}"), json!({"engine":"E3","check":"C13","bytes":hex(&reference)})));
                    continue;
                }
            }
            match Message::decode(&reference) {
                Ok(d) if d == *m => {}
                Ok(d) => {
                    p.viol.push((format!("roundtrip-differs kind={kind}"), format!("{label}: decode(encode(m)) = {:?}", d), json!({"engine":"E3","check":"C13","bytes":hex(&reference),"expect_encoding":hex(&reference)})));
                    continue;
                }
                Err(e) => {
                    p.viol.push((format!("canonical-encoding-rejected kind={kind}"), format!("{label}: decode error {e}"), json!({"engine":"E3","check":"C13","bytes":hex(&reference),"expect_encoding":hex(&reference)})));
                    continue;
                }
            }
            if i % perm_stride != 0 {
                continue;
            }
            let canon = benc::message_val(m).canon();
            for (what, variants) in [("key-permutation", key_permutation_variants(&canon)), ("unknown-key", unknown_key_variants(&canon))] {
                for bytes in variants {
                    p.evals += 1;
                    if what == "key-permutation" { p.perms += 1 } else { p.unknown += 1 }
                    let ok = matches!(Message::decode(&bytes), Ok(ref d) if d == m);
                    if !ok && p.viol.len() < 8 {
                        let got = Message::decode(&bytes).map(|d| format!("{:?}", d)).unwrap_or_else(|e| format!("Err({e})"));
                        p.viol.push((format!("{what}-changes-decoding kind={kind}"), format!("{label}: {} decodes to {got}", String::from_utf8_lossy(&bytes)), json!({"engine":"E3","check":"C13","bytes":hex(&bytes),"expect_encoding":hex(&reference)})));
                    }
                }
            }
        }
        p
    });
    let mut distinct = HashSet::new();
    let mut viol = vec![];
    for p in parts {
        rep.add("evaluations", p.evals);
        rep.add("messages_encoded_and_roundtripped", p.enc);
        rep.add("key_permutation_variants", p.perms);
        rep.add("unknown_key_variants", p.unknown);
        distinct.extend(p.distinct);
        viol.extend(p.viol);
    }
    let rej = rejections();
    crate::sim::install_quiet_panic_hook();
    for (label, bytes) in &rej {
        rep.add("evaluations", 1);
        let decoded = match std::panic::catch_unwind(|| Message::decode(bytes)) {
            Ok(d) => d,
            Err(_) => {
                let class = label.split(' ').take(2).collect::<Vec<_>>().join("-");
                viol.push((format!("decoder-panics {class}"), format!("{label}: decoding {} panics", String::from_utf8_lossy(bytes)), json!({"engine":"E3","check":"C13","bytes":hex(bytes),"expect":"reject"})));
                continue;
            }
        };
        if let Ok(m) = decoded {
            let class = label.split(' ').take(2).collect::<Vec<_>>().join("-");
            viol.push((format!("malformed-accepted {class}"), format!("{label}: {} accepted as {:?}", String::from_utf8_lossy(bytes), m), json!({"engine":"E3","check":"C13","bytes":hex(bytes),"expect":"reject"})));
        }
    }
    rep.set("rejection_cases", rej.len() as u64);
    viol.sort_by(|a, b| a.0.cmp(&b.0));
    for (sig, what, replay) in viol {
        rep.violation(sig, what, replay);
    }
    rep.set("distinct_nontrivial", distinct.len() as u64);
    rep.set("states", distinct.len() as u64);
    let ev = rep.get("evaluations");
    rep.set("transitions", ev);
    rep.set("traces_validated_against_impl", ev);
    rep.set("exhaustive", true);
    rep.set("rule", "Complete product of the stated message-shape dimensions (see DESIGN.md C13); each message: encode == independent canonical bencoder byte for byte, decode(encode(m)) == m; for every permutation of the keys of each dictionary level and every unknown-key insertion (10 keys x 8 value shapes incl. non-UTF-8 bytes at sorted position + every position): decode == m; plus the rejection list (missing required arguments, id lengths 0/1/19/21/40 in every id position, node-list lengths of every non-zero residue mod 26/38). distinct_nontrivial = distinct canonical encodings.");
    for i in [0usize, corpus.len() / 3, corpus.len() / 2, corpus.len() - 1] {
        let (label, m) = &corpus[i];
        rep.sample(json!({"label":label,"encoding": String::from_utf8_lossy(&benc::reference_encode(m)).to_string()}));
    }
    rep.assume("the reference bencoder and the BEP5/BEP32 message layout in harness/src/benc.rs are written from the BEPs, independently of the crate's serde code");
    rep
}

//! C16 — a search requested before bootstrap finishes is carried out, not dropped (E1,
//! differential oracle: early search vs the same search issued right after bootstrapped()).

use super::c01;
use crate::common::*;
use crate::sim::explore::{self, PrefixChooser, RunOutcome};
use crate::sim::peers::Sink;
use crate::sim::{self, Action, Fate, NodeSpec, Peer, RunResult, Scenario, When};
use btdht::InfoHash;
use serde_json::{json, Value};
use std::collections::BTreeSet;
use std::net::SocketAddr;
use std::sync::Arc;

const T_FRESH: u64 = 10_000;

#[derive(Clone, Debug)]
pub struct Cfg {
    pub mesh: usize,
    pub v6: bool,
    /// contacts of the fresh node: indices into the mesh
    pub contacts: Vec<usize>,
    pub silent_contact: bool,
    /// one-way latency between the fresh node and its contacts
    pub latency: u64,
    /// searches issued: (offset after the fresh node's start or None = right after bootstrapped(), hash 0 = announced / 1 = unknown, announce)
    pub searches: Vec<(Option<u64>, u8, bool)>,
    /// the fresh node is given its contacts as routers (it never reaches Bootstrapped on this small network)
    pub via_router: bool,
    /// everything the fresh node sends during its first `uplink_down_ms` is lost
    pub uplink_down_ms: u64,
    /// the caller drops every search's stream at once (announce-only use); announces on the wire are compared
    pub drop_streams: bool,
    /// extra scripted nodes given to the fresh node as contacts (>= 10 good nodes: it stays Bootstrapped)
    pub crowd: usize,
    pub rng_seed: u64,
}

fn fresh_addr(v6: bool) -> SocketAddr {
    if v6 { "[fd00::f0]:6881".parse().unwrap() } else { "10.0.0.240:6881".parse().unwrap() }
}
fn silent_addr(v6: bool) -> SocketAddr {
    if v6 { "[fd00::f1]:6881".parse().unwrap() } else { "10.0.0.241:6881".parse().unwrap() }
}
fn hash(k: u8) -> InfoHash {
    if k == 0 { c01::info_hash() } else { InfoHash::sha1(b"verif-c16-nobody-announced-this") }
}

pub fn build(cfg: &Cfg) -> (Scenario, Vec<Box<dyn Peer>>) {
    let base = c01::Cfg { n: cfg.mesh, v6: cfg.v6, port: None, placement: 0, announcer: 0, searcher: cfg.mesh - 1, announcer2: None, announcer2_gap_ms: 500, offset_ms: 1000, reannounce_ms: None, matrix: None, usage: 0, rng_seed: cfg.rng_seed };
    let mut sc = c01::scenario(&base);
    sc.actions.retain(|(_, a)| !matches!(a, Action::Search { tag, .. } if tag == "search"));
    sc.stop_after.clear();
    let f = cfg.mesh;
    let mut contacts: Vec<SocketAddr> = cfg.contacts.iter().map(|i| c01::node_addr(*i, cfg.v6)).collect();
    let mut peers: Vec<Box<dyn Peer>> = vec![];
    if cfg.silent_contact {
        contacts.push(silent_addr(cfg.v6));
        peers.push(Box::new(Sink { addr: silent_addr(cfg.v6), received: vec![] }));
    }
    if cfg.crowd > 0 {
        // one connected network: the scripted nodes know each other and the real mesh nodes
        let mut all: Vec<([u8; 20], SocketAddr)> = (0..cfg.crowd)
            .map(|i| {
                let mut id = SplitMix(0xc16_c0 + i as u64).bytes20();
                id[0] = (i as u8).wrapping_mul(23);
                (id, format!("10.0.16.{}:6881", i + 1).parse().unwrap())
            })
            .collect();
        for i in 0..cfg.mesh {
            all.push((c01::node_id(&base, i).into(), c01::node_addr(i, cfg.v6)));
        }
        let uni: Arc<Vec<([u8; 20], SocketAddr)>> = Arc::new(all);
        for (id, addr) in uni.iter().take(cfg.crowd) {
            peers.push(Box::new(crate::sim::peers::Responder::new(*addr, *id, uni.clone())));
            contacts.push(*addr);
        }
    }
    let mut idb = SplitMix(0xf4e5).bytes20();
    idb[0] = 0xf5;
    if cfg.via_router {
        let routers = contacts.iter().map(|c| c.to_string()).collect();
        sc.nodes.push(NodeSpec { addr: fresh_addr(cfg.v6), id: Some(InfoHash::from(idb)), read_only: true, announce_port: None, contacts: vec![], routers, start_ms: T_FRESH });
    } else {
        sc.nodes.push(NodeSpec { addr: fresh_addr(cfg.v6), id: Some(InfoHash::from(idb)), read_only: true, announce_port: None, contacts, routers: vec![], start_ms: T_FRESH });
    }
    sc.actions.push((When::At(T_FRESH), Action::Bootstrapped { node: f, tag: "bootF".into() }));
    let mut tags = vec![];
    for (k, (off, h, ann)) in cfg.searches.iter().enumerate() {
        let tag = format!("s{k}");
        let when = match off {
            Some(o) => When::At(T_FRESH + o),
            // with routers only, bootstrapped() never resolves on a small network: "right after
            // bootstrap" is then a fixed late instant
            None if cfg.via_router => When::At(T_FRESH + 20_000),
            None => When::After { tag: "bootF".into(), delay: 1 },
        };
        if cfg.drop_streams {
            sc.actions.push((when, Action::SearchDrop { node: f, info_hash: hash(*h), announce: *ann, tag: tag.clone(), after_ms: 0 }));
            continue;
        }
        sc.actions.push((when, Action::Search { node: f, info_hash: hash(*h), announce: *ann, tag: tag.clone() }));
        tags.push(tag);
    }
    if !cfg.via_router {
        tags.push("bootF".into());
    }
    sc.stop_after = tags;
    sc.linger_ms = 50;
    sc.horizon_ms = T_FRESH + if cfg.via_router || cfg.drop_streams { 40_000 } else { 120_000 };
    if cfg.drop_streams {
        // nothing to wait for: fixed horizon
        sc.stop_after.clear();
    }
    if cfg.via_router {
        sc.actions.push((When::At(sc.horizon_ms - 1_000), Action::GetState { node: f, tag: "endstate".into() }));
    }
    if cfg.uplink_down_ms > 0 {
        sc.blackhole = vec![(fresh_addr(cfg.v6), T_FRESH, T_FRESH + cfg.uplink_down_ms)];
    }
    let lat = cfg.latency;
    let fa = fresh_addr(cfg.v6);
    sc.link_latency = Arc::new(move |a, b| if a == fa || b == fa { lat } else { 20 });
    // deviations: bootstrap datagrams of the fresh node during its first seconds
    sc.eligible = Some(Arc::new(move |d, p| (d.src == fa || d.dst == fa) && d.sent_ms < T_FRESH + 4_000 && p.valid && (p.is_query("find_node") || p.y == 'r')));
    (sc, peers)
}

pub struct Obs {
    /// per search: Some(set of yielded peers) if the stream ended, None if it never ended
    pub results: Vec<Option<BTreeSet<SocketAddr>>>,
    pub boot_ms: Option<u64>,
    pub keys: Vec<String>,
    /// good contacts the node reports shortly before the end of the run
    pub good_at_end: Option<usize>,
    /// per search: destinations of the announce_peer queries the fresh node sent for its info-hash
    pub announced: Vec<BTreeSet<SocketAddr>>,
}

pub fn observe(cfg: &Cfg, res: &RunResult) -> Obs {
    let results = (0..cfg.searches.len())
        .map(|k| {
            let tag = format!("s{k}");
            res.finished(&tag).map(|_| res.items(&tag).into_iter().map(|(_, a)| a).collect())
        })
        .collect();
    let good_at_end = res.api.iter().rev().find_map(|e| match (&e.kind, e.tag == "endstate") {
        (sim::ApiKind::State { good, .. }, true) => Some(*good),
        _ => None,
    });
    let fa = fresh_addr(cfg.v6);
    let announced = cfg
        .searches
        .iter()
        .map(|(_, h, _)| {
            let ih: [u8; 20] = hash(*h).into();
            res.wire.iter().filter(|d| d.src == fa).filter(|d| { let p = sim::krpc::parse(&d.bytes); p.is_query("announce_peer") && p.target == Some(ih) }).map(|d| d.dst).collect()
        })
        .collect();
    Obs { announced, results, boot_ms: res.resolved("bootF").map(|r| r.0), keys: res.choices.iter().map(|c| c.0.clone()).collect(), good_at_end }
}

pub fn run_cfg(cfg: &Cfg, fates: &[Option<Fate>], prefix: &[usize]) -> (RunResult, Obs, bool) {
    let (mut sc, peers) = build(cfg);
    sc.fates = fates.to_vec();
    let mut ch = PrefixChooser { prefix, pos: 0, out_of_range: false };
    let res = sim::run(&sc, peers, &mut ch);
    let obs = observe(cfg, &res);
    (res, obs, ch.out_of_range)
}

fn late_variant(cfg: &Cfg) -> Cfg {
    let mut c = cfg.clone();
    for s in c.searches.iter_mut() {
        s.0 = None;
    }
    c
}

/// Compare an early run with the run in which the same searches are issued right after bootstrapped().
pub fn compare(cfg: &Cfg, early: &Obs, late: &Obs) -> Vec<(String, String)> {
    let mut v = vec![];
    if cfg.drop_streams {
        // nobody reads the streams: what can be compared is the announcing itself
        for (k, (off, h, ann)) in cfg.searches.iter().enumerate() {
            if *ann && early.announced[k].is_empty() && !late.announced[k].is_empty() {
                v.push(("early-announce-never-made".to_string(), format!("announcing search #{k} (hash {h}) requested {:?} ms after start, stream dropped at once: no announce_peer is ever sent; requested right after bootstrapped() it announces to {:?}", off, late.announced[k])));
            }
        }
        return v;
    }
    for (k, (off, h, _)) in cfg.searches.iter().enumerate() {
        match (&early.results[k], &late.results[k]) {
            // an early search must end whenever the same search issued after bootstrap ends; when the
            // bootstrap itself never gets anywhere (nobody reachable within the ping timeout) neither
            // does, and nothing is asserted
            (None, Some(_)) => v.push(("early-search-never-ends".to_string(), format!("search #{k} issued {:?} ms after start never ended although the same search issued after bootstrap does", off))),
            (None, None) => {
                // neither ends: fine while the node has nobody to ask (its bootstrap never got anywhere);
                // but a node that reports good contacts has finished its initial bootstrap, so the
                // search must have been carried out
                if early.good_at_end.unwrap_or(0) > 0 {
                    v.push(("search-never-carried-out-although-node-has-good-contacts".to_string(), format!("search #{k} issued {:?} ms after start (and the same search issued 20 s after start) never ended; the node reports {} good contacts", off, early.good_at_end.unwrap_or(0))));
                }
            }
            (Some(e), Some(l)) => {
                if e != l {
                    let when = match (off, early.boot_ms) {
                        (Some(o), Some(b)) if T_FRESH + o < b => "before-bootstrap-completed",
                        (Some(_), Some(_)) => "after-bootstrap-completed",
                        _ => "unknown",
                    };
                    v.push((
                        format!("early-search-result-differs issued={when}"),
                        format!("search #{k} (hash {h}) issued {:?} ms after start (bootstrap done at {:?}) yields {:?}; issued right after bootstrapped() it yields {:?}", off, early.boot_ms.map(|b| b - T_FRESH), e, l),
                    ));
                }
            }
            (Some(_), None) => {}
        }
    }
    v
}

fn cfg_json(c: &Cfg) -> Value {
    json!({"mesh":c.mesh,"v6":c.v6,"contacts":c.contacts,"silent_contact":c.silent_contact,"latency":c.latency,"via_router":c.via_router,"uplink_down_ms":c.uplink_down_ms,"drop_streams":c.drop_streams,"crowd":c.crowd,"rng_seed":c.rng_seed,
        "searches": c.searches.iter().map(|(o,h,a)| json!([o,h,a])).collect::<Vec<_>>()})
}
fn cfg_parse(v: &Value) -> Cfg {
    Cfg {
        mesh: v["mesh"].as_u64().unwrap_or(2) as usize,
        v6: v["v6"].as_bool().unwrap_or(false),
        contacts: v["contacts"].as_array().map(|a| a.iter().map(|x| x.as_u64().unwrap() as usize).collect()).unwrap_or_default(),
        silent_contact: v["silent_contact"].as_bool().unwrap_or(false),
        latency: v["latency"].as_u64().unwrap_or(20),
        via_router: v["via_router"].as_bool().unwrap_or(false),
        uplink_down_ms: v["uplink_down_ms"].as_u64().unwrap_or(0),
        drop_streams: v["drop_streams"].as_bool().unwrap_or(false),
        crowd: v["crowd"].as_u64().unwrap_or(0) as usize,
        rng_seed: v["rng_seed"].as_u64().unwrap_or(1),
        searches: v["searches"].as_array().map(|a| a.iter().map(|s| (s[0].as_u64(), s[1].as_u64().unwrap_or(0) as u8, s[2].as_bool().unwrap_or(false))).collect()).unwrap_or_default(),
    }
}

fn fates() -> Vec<Option<Fate>> {
    vec![None, Some(Fate::Deliver(1)), Some(Fate::Deliver(480)), Some(Fate::Deliver(990)), Some(Fate::Drop)]
}

pub fn replay(v: &Value) -> i32 {
    let cfg = cfg_parse(&v["cfg"]);
    let prefix: Vec<usize> = v["choices"].as_array().map(|a| a.iter().map(|x| x.as_u64().unwrap() as usize).collect()).unwrap_or_default();
    let f = if prefix.is_empty() { vec![None] } else { fates() };
    let (res, early, _) = run_cfg(&cfg, &f, &prefix);
    let (_, late, _) = run_cfg(&late_variant(&cfg), &f, &prefix);
    for e in res.api.iter().filter(|e| e.tag.starts_with('s') || e.tag == "bootF") {
        println!("  api {:>7} ms {} {:?}", e.t_ms, e.tag, e.kind);
    }
    println!("early: {:?}\nlate:  {:?}", early.results, late.results);
    let v = compare(&cfg, &early, &late);
    for (s, w) in &v {
        println!("VIOLATION {s}: {w}");
    }
    if v.is_empty() { 0 } else { 1 }
}

pub fn run(tier: Tier) -> Report {
    let mut rep = Report::new("C16", "model_checking", tier);
    let seed = 1 + seed();
    // base configurations
    let mut bases: Vec<Cfg> = vec![];
    for mesh in tier.pick(vec![2usize, 3], vec![2, 3, 4]) {
        for v6 in [false, true] {
            for (contacts, silent) in [(vec![0usize], false), (vec![mesh - 1], false), (vec![0, mesh - 1], false), (vec![0], true)] {
                for latency in [1u64, 480, 990] {
                    if v6 && latency == 480 {
                        continue;
                    }
                    bases.push(Cfg { mesh, v6, contacts: contacts.clone(), silent_contact: silent, latency, searches: vec![], via_router: false, uplink_down_ms: 0, drop_streams: false, crowd: 0, rng_seed: seed });
                }
            }
        }
    }
    // reference runs give the bootstrap completion time of every base
    let refs = par_map(&bases, |_, b| {
        let mut c = b.clone();
        c.searches = vec![(None, 0, false)];
        let (_, obs, _) = run_cfg(&c, &[None], &[]);
        obs
    });
    let mut work: Vec<Cfg> = vec![];
    for (b, r) in bases.iter().zip(refs.iter()) {
        let tb = match r.boot_ms {
            Some(t) => t - T_FRESH,
            None => {
                rep.violation("reference-bootstrap-never-completes", format!("{:?}", b), json!({"engine":"E1","check":"C16","cfg":cfg_json(b),"choices":[]}));
                continue;
            }
        };
        let mid = 2 * b.latency + 2;
        let mut offs: Vec<u64> = vec![0, 1, mid.min(tb.saturating_sub(1)), tb.saturating_sub(1), tb, tb + 100];
        // searches that arrive while the node re-bootstraps (every 5 s on a small network)
        for k in [4_998u64, 5_000, 5_001, 5_001 + b.latency, 5_001 + 2 * b.latency, 5_003 + 2 * b.latency, 10_002 + 3 * b.latency] {
            offs.push(tb + k);
        }
        offs.dedup();
        for o in offs {
            for ann in [false, true] {
                let mut c = b.clone();
                c.searches = vec![(Some(o), 0, ann)];
                work.push(c);
            }
        }
        // several early searches at once
        let mut c = b.clone();
        c.searches = vec![(Some(0), 0, false), (Some(0), 1, false), (Some(1), 0, true)];
        work.push(c);
        let mut c = b.clone();
        c.searches = vec![(Some(0), 1, true), (Some(mid.min(tb.saturating_sub(1))), 0, false)];
        work.push(c);
    }
    // long bootstraps: the fresh node's uplink is dead for 3 / 12 / 35 / 70 s (attempts fail and back off)
    for down in [3_000u64, 12_000, 35_000, 70_000] {
        for o in [0u64, 1_000, 29_000, 31_000] {
            work.push(Cfg { mesh: 2, v6: false, contacts: vec![0], silent_contact: false, latency: 20, searches: vec![(Some(o), 0, false), (Some(o + 5), 0, true)], via_router: false, uplink_down_ms: down, drop_streams: false, crowd: 0, rng_seed: seed });
        }
    }
    // announce-only use: the stream of an early announcing search is dropped at once
    for mesh in [2usize, 3] {
        for o in [0u64, 1, 15] {
            for crowd in [0usize, 12] {
                work.push(Cfg { mesh, v6: false, contacts: vec![0], silent_contact: false, latency: 20, searches: vec![(Some(o), 0, true), (Some(o), 1, true)], via_router: false, uplink_down_ms: 0, drop_streams: true, crowd, rng_seed: seed });
            }
        }
    }
    // many early searches on a node that ends up with >= 10 good nodes (the state stays Bootstrapped: no
    // further bootstrap event will ever come)
    for nsearch in [9usize, 12, 20] {
        for o in [0u64, 10] {
            let searches: Vec<(Option<u64>, u8, bool)> = (0..nsearch).map(|k| (Some(o + (k as u64 % 3)), (k % 2) as u8, k % 4 == 0)).collect();
            work.push(Cfg { mesh: 2, v6: false, contacts: vec![0], silent_contact: false, latency: 20, searches, via_router: false, uplink_down_ms: 0, drop_streams: false, crowd: 14, rng_seed: seed });
        }
    }
    // routers only: the node works from the routers' answers without ever being "Bootstrapped"
    for mesh in [2usize, 3] {
        for latency in [1u64, 200] {
            for o in [0u64, 1, 2 * latency + 2, 3_000, 6_000] {
                for ann in [false, true] {
                    work.push(Cfg { mesh, v6: false, contacts: vec![0], silent_contact: false, latency, searches: vec![(Some(o), 0, ann)], via_router: true, uplink_down_ms: 0, drop_streams: false, crowd: 0, rng_seed: seed });
                }
            }
        }
    }
    let outs = par_map(&work, |_, cfg| {
        let (res, early, _) = run_cfg(cfg, &[None], &[]);
        let (_, late, _) = run_cfg(&late_variant(cfg), &[None], &[]);
        (sim::trace_hash(&res, ""), res.wire.len() as u64, compare(cfg, &early, &late), early.results.clone())
    });
    let mut distinct = std::collections::HashSet::new();
    let mut nonempty = 0u64;
    for (cfg, (h, wire, viol, results)) in work.iter().zip(outs.iter()) {
        distinct.insert(*h);
        rep.add("transitions", *wire);
        if results.iter().any(|r| r.as_ref().map_or(false, |s| !s.is_empty())) {
            nonempty += 1;
        }
        for (sig, what) in viol {
            rep.violation(sig.clone(), format!("{what} [{:?}]", cfg), json!({"engine":"E1","check":"C16","cfg":cfg_json(cfg),"choices":[]}));
        }
    }
    rep.set("layerA_runs", 2 * work.len() as u64);
    rep.set("layerA_early_runs_yielding_peers", nonempty);
    let mut runs = 2 * work.len() as u64 + bases.len() as u64;
    // deviations on the fresh node's bootstrap datagrams
    let fs = fates();
    let mut levels = vec![];
    for b in bases.iter().filter(|b| b.latency == 1 && !b.v6).take(tier.pick(3, 8)) {
        let mut cfg = b.clone();
        cfg.searches = vec![(Some(0), 0, false), (Some(3), 0, true)];
        let late = late_variant(&cfg);
        let skipped = std::sync::atomic::AtomicU64::new(0);
        let run_one = |prefix: &[usize]| -> RunOutcome {
            let (res, early, oor) = run_cfg(&cfg, &fs, prefix);
            let (_, lobs, _) = run_cfg(&late, &fs, prefix);
            // comparable only if both runs saw the same choice points along the prefix
            let n = prefix.len();
            let comparable = early.keys.len() >= n && lobs.keys.len() >= n && early.keys[..n] == lobs.keys[..n];
            let violations = if comparable { compare(&cfg, &early, &lobs) } else {
                skipped.fetch_add(1, std::sync::atomic::Ordering::Relaxed);
                vec![]
            };
            RunOutcome { outcome_hash: sim::trace_hash(&res, ""), wire_events: res.wire.len() as u64, violations, out_of_range: oor, choices: res.choices }
        };
        let s = explore::explore(tier.pick(1, 2), tier.pick(3_000, 200_000), &run_one);
        runs += 2 * s.runs;
        rep.add("transitions", s.wire_events);
        rep.add("choice_points", s.choice_points);
        rep.add("layerB_distinct_outcomes", s.distinct_outcomes);
        levels.push(json!({"cfg":cfg_json(&cfg),"bound_completed":s.completed_bound,"runs":s.runs,"distinct_outcomes":s.distinct_outcomes,"not_comparable":skipped.load(std::sync::atomic::Ordering::Relaxed),"capped":s.capped}));
        for (sig, what, choices) in s.violations {
            rep.violation(format!("deviation {sig}"), format!("{what} [{:?}]", cfg), json!({"engine":"E1","check":"C16","cfg":cfg_json(&cfg),"choices":choices}));
        }
    }
    rep.set("layerB_explorations", json!(levels));
    rep.set("evaluations", runs);
    let d = distinct.len() as u64 + rep.get("layerB_distinct_outcomes");
    rep.set("states", d);
    rep.set("distinct_nontrivial", d);
    rep.set("traces_validated_against_impl", runs);
    rep.sample(json!({"cfg":cfg_json(&work[0])}));
    rep.sample(json!({"cfg":cfg_json(&work[work.len() - 1])}));
    rep.set("rule", "Mesh of 2..4 real serving nodes holding one announce; a fresh node with 1-2 contacts (one optionally silent, contact latency {1,480,990} ms) issues 1-3 searches (announce on/off, announced and unknown info-hash) at offsets {0, 1 ms, after the first answer, just before / at / after bootstrap completion}; each early run is compared with the otherwise identical run in which the searches are issued right after bootstrapped(): same set of peers, and every early stream ends. Layer B: <= 1 (thorough 2) deviation over {1,480,990 ms, drop} on the fresh node's bootstrap datagrams, same differential oracle with the same choice prefix.");
    rep
}

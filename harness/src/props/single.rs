//! Single real node driven by scripted clients: shared by C05 (reply discipline), the handler
//! bindings of C06 (tokens) and C07 (peer store), and C17 (datagram size).

use crate::common::*;
use crate::sim::krpc::{self, Parsed};
use crate::sim::peers::{Peer, PeerCtx, Responder};
use crate::sim::{self, Action, Datagram, DefaultChooser, NodeSpec, RunResult, Scenario, When};
use btdht::InfoHash;
use std::any::Any;
use std::collections::{BTreeMap, BTreeSet, HashMap};
use std::net::{IpAddr, SocketAddr};
use std::sync::{Arc, Mutex};

#[derive(Clone, Debug, PartialEq)]
pub struct NodeCfg {
    pub v6: bool,
    pub read_only: bool,
    /// number of responsive contacts the node bootstraps from: 0, 3 or 9 (9 = two buckets)
    pub table: usize,
    /// pre-announce 2 v4 + 1 v6 peers on info-hash 1
    pub store: bool,
}

pub fn node_addr(v6: bool) -> SocketAddr {
    if v6 { "[fd00::1]:6881".parse().unwrap() } else { "10.0.0.1:6881".parse().unwrap() }
}
pub fn node_id() -> InfoHash {
    let mut b = SplitMix(0x51_4e).bytes20();
    b[0] |= 0x80;
    InfoHash::from(b)
}
pub fn contact_addr(i: usize, v6: bool) -> SocketAddr {
    if v6 { format!("[fd00::1:{:x}]:6881", i + 1).parse().unwrap() } else { format!("10.0.1.{}:6881", i + 1).parse().unwrap() }
}
pub fn contact_id(i: usize) -> [u8; 20] {
    let mut b = SplitMix(0x51_00 + i as u64).bytes20();
    // contacts 0..7: first bit differs from the node id (bucket 0); contact 8: shares it
    if i < 8 { b[0] &= 0x7f } else { b[0] |= 0x80; b[1] &= 0x7f; }
    b
}
/// Client source addresses: 0 = v4 a, 1 = v4 b, 2 = v6 a, 3 = v4 a' (same IP as a, other port)
pub fn client_addr(i: usize) -> SocketAddr {
    match i {
        0 => "10.9.0.1:4001".parse().unwrap(),
        1 => "10.9.0.2:4002".parse().unwrap(),
        2 => "[fd00::9:1]:4003".parse().unwrap(),
        3 => "10.9.0.1:5001".parse().unwrap(),
        // what an IPv4 peer looks like on a dual-stack socket, and a scoped link-local peer
        4 => "[::ffff:10.9.0.7]:4004".parse().unwrap(),
        5 => "[fe80::9:5%3]:4005".parse().unwrap(),
        n => format!("10.9.{}.{}:{}", 1 + n / 250, 1 + n % 250, 10_000 + n).parse().unwrap(),
    }
}
pub fn hash_n(n: u8) -> [u8; 20] {
    let mut b = [0x11u8; 20];
    b[0] = 0xb0 + n;
    b[19] = n;
    b
}

#[derive(Default)]
pub struct TokenBoard {
    /// last token each client address received from the node
    pub last: HashMap<SocketAddr, Vec<u8>>,
    /// a token handed out by a previous instance of the node (different secrets)
    pub previous_instance: Vec<u8>,
}

/// A scripted client: sends what it is commanded to, remembers the tokens it is given.
pub struct Client {
    pub addr: SocketAddr,
    pub node: SocketAddr,
    pub id: [u8; 20],
    pub board: Arc<Mutex<TokenBoard>>,
    pub counter: u32,
    /// announce (hash 1, implied port) with every token it is handed, at once
    pub grab_and_announce: bool,
}

impl Client {
    fn tid(&mut self, spec: Option<&str>) -> Vec<u8> {
        self.counter += 1;
        match spec {
            Some(h) => unhex(h),
            None => format!("c{:02}{:04}", self.addr.port() % 100, self.counter).into_bytes(),
        }
    }
}

fn want_of(s: &str) -> Option<Vec<&'static str>> {
    match s {
        "n4" => Some(vec!["n4"]),
        "n6" => Some(vec!["n6"]),
        "both" => Some(vec!["n4", "n6"]),
        "n6n4" => Some(vec!["n6", "n4"]),
        "n6n6" => Some(vec!["n6", "n6"]),
        "n4n4" => Some(vec!["n4", "n4"]),
        "n4zz" => Some(vec!["n4", "zz"]),
        "empty" => Some(vec![]),
        _ => None,
    }
}

impl Peer for Client {
    fn addr(&self) -> SocketAddr {
        self.addr
    }
    fn as_any(&self) -> &dyn Any {
        self
    }
    fn on_datagram(&mut self, ctx: &mut PeerCtx, bytes: &[u8], from: SocketAddr) {
        if from == self.node {
            let p = krpc::parse(bytes);
            if p.valid && p.y == 'r' {
                if let Some(t) = p.token {
                    self.board.lock().unwrap().last.insert(self.addr, t.clone());
                    if self.grab_and_announce {
                        let tid = self.tid(None);
                        ctx.out.push((self.node, krpc::announce_peer(&tid, &self.id, &hash_n(1), &t, None)));
                    }
                }
            }
        }
    }
    /// Commands: `ping [tid=hex]`, `fn <want|-> [tid=]`, `gp <hash n> <want|-> [tid=]`,
    /// `ann <hash n> <port|implied> <valid|of:<client idx>|random|short|empty|long|previous> [tid=]`, `raw <hex>`
    fn command(&mut self, cmd: &str, ctx: &mut PeerCtx) {
        let parts: Vec<&str> = cmd.split_whitespace().collect();
        let tid_spec = parts.iter().find_map(|p| p.strip_prefix("tid="));
        let id = self.id;
        let bytes = match parts[0] {
            "ping" => {
                let t = self.tid(tid_spec);
                krpc::ping(&t, &id)
            }
            "fn" => {
                let t = self.tid(tid_spec);
                let w = want_of(parts.get(1).copied().unwrap_or("-"));
                krpc::find_node(&t, &id, &hash_n(7), w.as_deref())
            }
            "gp" => {
                let t = self.tid(tid_spec);
                let h: u8 = parts[1].parse().unwrap_or(1);
                let w = want_of(parts.get(2).copied().unwrap_or("-"));
                krpc::get_peers(&t, &id, &hash_n(h), w.as_deref())
            }
            "ann" => {
                let t = self.tid(tid_spec);
                let h: u8 = parts[1].parse().unwrap_or(1);
                let port = parts[2].parse::<u16>().ok();
                let board = self.board.lock().unwrap();
                let token: Vec<u8> = match parts[3] {
                    "valid" => board.last.get(&self.addr).cloned().unwrap_or_else(|| vec![0x55; 20]),
                    "random" => vec![0x5a; 20],
                    "short" => board.last.get(&self.addr).map(|t| t[..t.len().min(19)].to_vec()).unwrap_or_else(|| vec![1; 19]),
                    "long" => vec![0x5b; 21],
                    // a genuinely issued token with one more byte appended (never issued as such)
                    "plus" => {
                        let mut t = board.last.get(&self.addr).cloned().unwrap_or_else(|| vec![0x57; 20]);
                        t.push(0x21);
                        t
                    }
                    "empty" => vec![],
                    "previous" => board.previous_instance.clone(),
                    other => {
                        let idx: usize = other.strip_prefix("of:").and_then(|i| i.parse().ok()).unwrap_or(0);
                        board.last.get(&client_addr(idx)).cloned().unwrap_or_else(|| vec![0x56; 20])
                    }
                };
                drop(board);
                if let Some(p) = parts[2].strip_prefix("implied+") {
                    // what most clients send: implied_port = 1 together with a real port number
                    krpc::announce_peer_raw(&t, &id, &hash_n(h), &token, p.parse().unwrap_or(1), Some(1))
                } else if let Some(p) = parts[2].strip_prefix("notimplied+") {
                    krpc::announce_peer_raw(&t, &id, &hash_n(h), &token, p.parse().unwrap_or(1), Some(0))
                } else {
                    krpc::announce_peer(&t, &id, &hash_n(h), &token, port)
                }
            }
            "raw" => unhex(parts[1]),
            _ => return,
        };
        ctx.out.push((self.node, bytes));
    }
}

pub struct Built {
    pub sc: Scenario,
    pub peers: Vec<Box<dyn Peer>>,
    pub board: Arc<Mutex<TokenBoard>>,
    /// instant at which preparation is over
    pub ready_ms: u64,
}

pub fn n_clients() -> usize {
    6
}

/// Node + contacts + clients; store preparation when requested. Extra clients may be added by
/// the caller (`extra_clients` addresses beyond the 4 standard ones).
pub fn build(cfg: &NodeCfg, extra_clients: usize, rng_seed: u64) -> Built {
    let mut sc = Scenario::new(&format!("single {:?}", cfg));
    sc.rng_seed = rng_seed;
    let naddr = node_addr(cfg.v6);
    let universe: Arc<Vec<([u8; 20], SocketAddr)>> = Arc::new((0..cfg.table).map(|i| (contact_id(i), contact_addr(i, cfg.v6))).collect());
    let mut peers: Vec<Box<dyn Peer>> = vec![];
    for i in 0..cfg.table {
        peers.push(Box::new(Responder::new(contact_addr(i, cfg.v6), contact_id(i), universe.clone())));
    }
    let board = Arc::new(Mutex::new(TokenBoard { last: HashMap::new(), previous_instance: {
        // SHA-1 shaped but under secrets this instance never had
        let mut t = SplitMix(0x7070).bytes20().to_vec();
        t[0] = 0x70;
        t
    } }));
    for i in 0..(n_clients() + extra_clients) {
        let mut id = SplitMix(0xc11e + i as u64).bytes20();
        id[0] = 0x20 + i as u8;
        peers.push(Box::new(Client { addr: client_addr(i), node: naddr, id, board: board.clone(), counter: 0, grab_and_announce: false }));
    }
    sc.nodes.push(NodeSpec {
        addr: naddr,
        id: Some(node_id()),
        read_only: cfg.read_only,
        announce_port: None,
        contacts: (0..cfg.table).map(|i| contact_addr(i, cfg.v6)).collect(),
        routers: vec![],
        start_ms: 0,
    });
    sc.link_latency = Arc::new(|_, _| 5);
    let mut ready = 1_000;
    if cfg.store {
        // 2 v4 + 1 v6 peers on hash 1 (explicit port from a, implied from b, explicit from the v6 client)
        for (k, (c, port)) in [(0usize, "1111"), (1, "implied"), (2, "3333")].iter().enumerate() {
            let t = 1_000 + 40 * k as u64;
            sc.actions.push((When::At(t), Action::PeerCommand { peer: client_addr(*c), cmd: "gp 1 -".into() }));
            sc.actions.push((When::At(t + 20), Action::PeerCommand { peer: client_addr(*c), cmd: format!("ann 1 {port} valid") }));
        }
        ready = 1_200;
    }
    sc.horizon_ms = ready + 2_000;
    Built { sc, peers, board, ready_ms: ready }
}

// ---------------------------------------------------------------------------------------------
// Oracle over the wire log

#[derive(Clone, Debug)]
pub struct Exchange {
    pub query: Datagram,
    pub parsed: Parsed,
    pub well_formed: bool,
    pub replies: Vec<(Datagram, Parsed)>,
}

/// Is this a well-formed KRPC query by the reference reading of BEP5 (the shapes our clients
/// generate; borderline shapes are never generated)?
pub fn well_formed_query(bytes: &[u8], p: &Parsed) -> bool {
    if !p.valid || p.y != 'q' || p.id.is_none() {
        return false;
    }
    // the arguments must be exactly typed: re-parse the dict to check presence
    let v = match crate::benc::parse(bytes) {
        Some(v) => v,
        None => return false,
    };
    let a = match v.get("a") {
        Some(a) => a,
        None => return false,
    };
    let has20 = |k: &str| a.get(k).and_then(|x| x.bytes()).map_or(false, |b| b.len() == 20);
    match p.q.as_str() {
        "ping" => true,
        "find_node" => has20("target"),
        "get_peers" => has20("info_hash"),
        "announce_peer" => {
            has20("info_hash")
                && a.get("token").and_then(|x| x.bytes()).is_some()
                && matches!(a.get("port"), Some(crate::benc::Val::Int(i)) if (0..=65535).contains(i))
        }
        _ => false,
    }
}

/// Pair every datagram delivered to the node from a non-node source with the response/error
/// datagrams the node sent to that source with that tid before the next millisecond.
pub fn exchanges(res: &RunResult, node: SocketAddr) -> (Vec<Exchange>, Vec<(Datagram, Parsed)>) {
    let mut ex: Vec<Exchange> = vec![];
    let mut replies: Vec<(Datagram, Parsed, bool)> = res
        .wire
        .iter()
        .filter(|d| d.src == node)
        .map(|d| (d.clone(), krpc::parse(&d.bytes), false))
        .filter(|(_, p, _)| !(p.valid && p.y == 'q'))
        .collect();
    for d in res.wire.iter().filter(|d| d.dst == node && d.src != node) {
        for &t in &d.delivered_ms {
            let p = krpc::parse(&d.bytes);
            let wf = well_formed_query(&d.bytes, &p);
            let mut mine = vec![];
            for r in replies.iter_mut() {
                if !r.2 && r.0.dst == d.src && r.0.sent_ms >= t && r.0.sent_ms <= t + 1 && r.1.valid && r.1.tid == p.tid && p.valid {
                    r.2 = true;
                    mine.push((r.0.clone(), r.1.clone()));
                }
            }
            let mut q = d.clone();
            q.delivered_ms = vec![t];
            ex.push(Exchange { query: q, parsed: p, well_formed: wf, replies: mine });
        }
    }
    let orphans = replies.into_iter().filter(|r| !r.2).map(|r| (r.0, r.1)).collect();
    (ex, orphans)
}

#[derive(Default)]
pub struct Model {
    /// tokens handed out: (requester ip) -> list of (token, issue time)
    pub issued: HashMap<IpAddr, Vec<(Vec<u8>, u64)>>,
    /// reference peer store: (info hash, contact addr) -> last acked announce time
    pub store: BTreeMap<([u8; 20], SocketAddr), u64>,
}

pub struct Findings {
    /// (property tag, signature, what)
    pub items: Vec<(&'static str, String, String)>,
    pub replies_checked: u64,
    pub acks: u64,
    pub refusals_203: u64,
    pub refusals_202: u64,
    pub values_checked: u64,
    pub max_datagram: usize,
}

const DAY: u64 = 86_400_000;

/// The single-node oracle. Tags: "C05" reply discipline, "C06" tokens, "C07" store, "C17" size.
pub fn check(res: &RunResult, cfg: &NodeCfg, model: &mut Model) -> Findings {
    let node = node_addr(cfg.v6);
    let nid: [u8; 20] = node_id().into();
    let mut f = Findings { items: vec![], replies_checked: 0, acks: 0, refusals_203: 0, refusals_202: 0, values_checked: 0, max_datagram: 0 };
    // C17: every datagram the node emits
    for d in res.wire.iter().filter(|d| d.src == node) {
        f.max_datagram = f.max_datagram.max(d.bytes.len());
        if d.bytes.len() > 1500 {
            let p = krpc::parse(&d.bytes);
            f.items.push(("C17", format!("oversized-datagram kind={}", if p.y == 'r' && p.has_values { "get_peers-reply" } else { "other" }), format!("node emits a {} byte datagram ({}) to {}", d.bytes.len(), p.canon_key(), d.dst)));
        } else if btdht::message::Message::decode(&d.bytes).is_err() {
            f.items.push(("C17", "emitted-datagram-undecodable".into(), format!("node emits a datagram its own decoder rejects: {:?}", String::from_utf8_lossy(&d.bytes[..d.bytes.len().min(80)]))));
        }
    }
    // a datagram that could not be handed to the node (nothing is dropped in these scenarios): its socket is gone
    if let Some(d) = res.wire.iter().find(|d| d.dst == node && d.src != node && d.delivered_ms.is_empty() && !matches!(d.fate, Some(crate::sim::Fate::Drop)) && d.sent_ms + 200 < res.end_ms) {
        let p = krpc::parse(&d.bytes);
        f.items.push(("C05", "node-stopped-receiving".into(), format!("{} sent by {} at {} ms cannot be delivered: the node has closed its socket (it stopped)", p.canon_key(), d.src, d.sent_ms)));
    }
    let (ex, orphans) = exchanges(res, node);
    for (d, p) in &orphans {
        f.items.push(("C05", "unsolicited-response-or-error".into(), format!("node sends {} to {} at {} ms that answers no query", p.canon_key(), d.dst, d.sent_ms)));
    }
    let mut order: Vec<&Exchange> = ex.iter().collect();
    order.sort_by_key(|e| (e.query.delivered_ms[0], e.query.seq));
    for e in order {
        let t = e.query.delivered_ms[0];
        let src = e.query.src;
        // C05 quantifies over transaction ids of 0..32 bytes; longer ones (whose echo may not even fit a
        // datagram) are only subject to the size monitor
        if e.parsed.tid.len() > 32 {
            continue;
        }
        let expect_reply = !cfg.read_only && e.well_formed;
        if !expect_reply {
            if !e.replies.is_empty() {
                let why = if cfg.read_only && e.well_formed { "read-only-node-replies" } else { "non-query-answered" };
                f.items.push(("C05", why.into(), format!("{} from {} ({}) got {} reply datagram(s)", e.parsed.canon_key(), src, String::from_utf8_lossy(&e.query.bytes[..e.query.bytes.len().min(50)]), e.replies.len())));
            }
            continue;
        }
        if e.replies.len() != 1 {
            f.items.push(("C05", format!("query-gets-{}-replies kind={}", e.replies.len(), e.parsed.q), format!("{} from {} with tid {} got {} replies", e.parsed.q, src, hex(&e.parsed.tid), e.replies.len())));
            // C17: "a get_peers reply stays within that size however many peers are stored" — a reply
            // that is never emitted (e.g. built too large and refused by the socket layer) does not
            if e.replies.is_empty() && e.parsed.q == "get_peers" {
                f.items.push(("C17", "get_peers-reply-not-emitted".into(), format!("get_peers from {} with a {}-byte tid at {} ms got no reply datagram at all", src, e.parsed.tid.len(), t)));
            }
            continue;
        }
        f.replies_checked += 1;
        let (_, r) = &e.replies[0];
        let q = &e.parsed;
        let is_err = r.y == 'e';
        if r.y == 'r' && r.id != Some(nid) {
            f.items.push(("C05", "reply-with-wrong-id".into(), format!("{} reply carries id {:?}", q.q, r.id.map(|i| hex(&i)))));
        }
        match q.q.as_str() {
            "ping" | "find_node" => {
                if r.y != 'r' || r.token.is_some() || r.has_values {
                    f.items.push(("C05", format!("{}-reply-shape", q.q), format!("reply to {} is {} (token {:?}, values {})", q.q, r.canon_key(), r.token.is_some(), r.has_values)));
                }
                if q.q == "ping" && (r.has_nodes || r.has_nodes6) {
                    f.items.push(("C05", "ping-reply-shape".into(), "ping reply carries nodes".into()));
                }
                if q.q == "find_node" {
                    check_families(&mut f, q, r, cfg.v6);
                    check_node_count(&mut f, q, r, cfg, t);
                }
            }
            "get_peers" => {
                if r.y != 'r' {
                    f.items.push(("C05", "get_peers-reply-shape".into(), format!("reply is {}", r.canon_key())));
                    continue;
                }
                match &r.token {
                    Some(tok) if tok.len() == 20 => {
                        model.issued.entry(src.ip()).or_default().push((tok.clone(), t));
                    }
                    other => f.items.push(("C05", "get_peers-reply-without-20-byte-token".into(), format!("token {:?}", other.as_ref().map(|t| t.len())))),
                }
                check_families(&mut f, q, r, cfg.v6);
                check_node_count(&mut f, q, r, cfg, t);
                // values: only the requester's family (C05); exactly the live pairs (C07)
                if r.values.iter().any(|a| a.is_ipv4() != src.is_ipv4()) || r.values_malformed {
                    f.items.push(("C05", "values-of-other-family".into(), format!("requester {} got {:?}", src, r.values)));
                }
                let ih = q.target.unwrap();
                let want: BTreeSet<SocketAddr> = model.store.iter().filter(|((h, a), ts)| *h == ih && a.is_ipv4() == src.is_ipv4() && t - **ts < DAY).map(|((_, a), _)| *a).collect();
                let got: BTreeSet<SocketAddr> = r.values.iter().copied().collect();
                f.values_checked += 1;
                if got.len() != r.values.len() {
                    f.items.push(("C07", "duplicate-peer-in-reply".into(), format!("{:?}", r.values)));
                }
                // a reply carrying every live peer of the requester's family fits 1500 bytes?
                let per = if src.is_ipv4() { 8 } else { 21 };
                let fits = 300 + want.len() * per <= 1500;
                let ambiguous: BTreeSet<SocketAddr> = model.store.iter().filter(|((h, _), ts)| *h == ih && (t - **ts).abs_diff(DAY) < 10).map(|((_, a), _)| *a).collect();
                if fits {
                    let missing: Vec<_> = want.difference(&got).filter(|a| !ambiguous.contains(a)).collect();
                    let extra: Vec<_> = got.difference(&want).filter(|a| !ambiguous.contains(a)).collect();
                    if !missing.is_empty() {
                        f.items.push(("C07", "live-peer-missing-from-reply".into(), format!("hash {} requester {}: missing {:?} (got {} of {})", hex(&ih[..2]), src, missing, got.len(), want.len())));
                    }
                    if !extra.is_empty() {
                        f.items.push(("C07", "unknown-or-expired-peer-in-reply".into(), format!("hash {} requester {}: extra {:?}", hex(&ih[..2]), src, extra)));
                    }
                } else if !got.is_subset(&want.union(&ambiguous).copied().collect()) {
                    f.items.push(("C07", "unknown-or-expired-peer-in-reply".into(), format!("hash {} requester {}: values not a subset of the live peers", hex(&ih[..2]), src)));
                }
            }
            "announce_peer" => {
                let tok = q.token.clone().unwrap_or_default();
                let issued = model.issued.get(&src.ip()).map(|v| v.iter().filter(|(x, _)| *x == tok).map(|(_, at)| *at).max()).unwrap_or(None);
                let ih = q.target.unwrap();
                let mut contact = src;
                if q.implied_port.unwrap_or(0) == 0 {
                    contact.set_port(q.port.unwrap_or(0) as u16);
                }
                let live = model.store.iter().filter(|(_, ts)| t - **ts < DAY).count();
                let pair_live = model.store.get(&(ih, contact)).map_or(false, |ts| t - ts < DAY);
                // verdict classes
                let acked = r.y == 'r';
                let code = r.err_code.unwrap_or(0);
                if acked {
                    f.acks += 1;
                } else if code == 203 {
                    f.refusals_203 += 1;
                } else if code == 202 {
                    f.refusals_202 += 1;
                }
                if acked && (r.token.is_some() || r.has_values) {
                    f.items.push(("C05", "announce-ack-shape".into(), format!("ack is {}", r.canon_key())));
                }
                if is_err && code != 203 && code != 202 {
                    f.items.push(("C05", "announce-refused-with-other-code".into(), format!("code {code}")));
                }
                match issued {
                    None => {
                        if acked || code != 203 {
                            f.items.push(("C06", "never-issued-or-foreign-token-not-refused-203".into(), format!("announce from {} with a token never handed to that IP ({} bytes) answered {}", src, tok.len(), r.canon_key())));
                        }
                    }
                    Some(at) => {
                        let age = t - at;
                        if age <= 600_000 {
                            if code == 203 {
                                f.items.push(("C06", "valid-token-refused".into(), format!("token issued to {} {} ms ago refused with 203", src.ip(), age)));
                            } else {
                                let room = pair_live || live < 500;
                                if room && !acked {
                                    f.items.push(("C07", "announce-refused-below-capacity".into(), format!("{} live pairs, answer {}", live, r.canon_key())));
                                }
                                if !room && (acked || code != 202) {
                                    f.items.push(("C07", "announce-beyond-capacity-not-refused-202".into(), format!("{} live pairs, new pair, answer {}", live, r.canon_key())));
                                }
                            }
                        } else if age >= 1_800_000 && (acked || code != 203) {
                            f.items.push(("C06", "token-accepted-after-30min".into(), format!("token issued {} ms ago answered {}", age, r.canon_key())));
                        }
                    }
                }
                if acked {
                    model.store.insert((ih, contact), t);
                }
            }
            _ => {}
        }
    }
    f
}

/// With 9 responsive contacts the table holds 9 nodes of the node's own family from shortly after
/// start: a reply that may list that family must list exactly 8 of them (C09).
fn check_node_count(f: &mut Findings, q: &Parsed, r: &Parsed, cfg: &NodeCfg, t: u64) {
    if cfg.table != 9 || t < 900 {
        return;
    }
    let (w4, w6) = (q.want.iter().any(|w| w == "n4"), q.want.iter().any(|w| w == "n6"));
    let own_wanted = if !w4 && !w6 { true } else if cfg.v6 { w6 } else { w4 };
    if !own_wanted {
        return;
    }
    let n = if cfg.v6 { r.nodes6.len() } else { r.nodes.len() };
    if n != 8 {
        f.items.push(("C09", "reply-node-count-not-min-8-n".into(), format!("{} (want {:?}) at {} ms lists {} nodes of the node's family although its table holds 9", q.q, q.want, t, n)));
    }
}

fn check_families(f: &mut Findings, q: &Parsed, r: &Parsed, node_v6: bool) {
    let (w4, w6) = (q.want.iter().any(|w| w == "n4"), q.want.iter().any(|w| w == "n6"));
    let (allow4, allow6) = if !w4 && !w6 { (!node_v6, node_v6) } else { (w4, w6) };
    if (r.has_nodes && !allow4) || (r.has_nodes6 && !allow6) {
        f.items.push(("C05", "nodes-of-unrequested-family".into(), format!("{} want {:?}: reply has nodes={} nodes6={}", q.q, q.want, r.has_nodes, r.has_nodes6)));
    }
    if r.nodes.iter().any(|(_, a)| !a.is_ipv4()) || r.nodes6.iter().any(|(_, a)| !a.is_ipv6()) {
        f.items.push(("C05", "node-list-family-mismatch".into(), "nodes/nodes6 carry the wrong address family".into()));
    }
    if r.nodes.len() > 8 || r.nodes6.len() > 8 {
        f.items.push(("C09", "more-than-8-nodes-in-reply".into(), format!("{} / {}", r.nodes.len(), r.nodes6.len())));
    }
}

pub fn run_built(b: Built) -> RunResult {
    sim::run(&b.sc, b.peers, &mut DefaultChooser)
}

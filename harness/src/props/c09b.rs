//! C09, E1 binding: node lists in find_node / get_peers replies of a real node whose routing table
//! was populated by traffic, compared with a full dump of the table taken by 161 probes in the
//! same millisecond.

use crate::common::*;
use crate::props::table::flip_bit;
use crate::sim::peers::Responder;
use crate::sim::{self, krpc, Action, NodeSpec, Peer, RunResult, Scenario, When};
use btdht::verif::leading_bit_count;
use btdht::InfoHash;
use serde_json::{json, Value};
use std::collections::BTreeSet;
use std::net::SocketAddr;
use std::sync::Arc;

#[derive(Clone, Debug)]
pub struct Cfg {
    pub contacts: usize,
    /// every third contact goes silent at 2 s (stale, later bad entries)
    pub some_silent: bool,
    /// every contact goes silent at 2 s: for a few seconds after 15 minutes the table holds questionable nodes only
    pub all_silent: bool,
    /// 200 peers are announced on the info-hash used by the get_peers probes (the reply has to be cut down)
    pub crowded: bool,
    /// contacts 2k and 2k+1 use the same id (two nodes, one id)
    pub twins: bool,
    pub v6: bool,
    pub rng_seed: u64,
}

fn n_addr(v6: bool) -> SocketAddr {
    if v6 { "[fd00::9]:6881".parse().unwrap() } else { "10.0.0.9:6881".parse().unwrap() }
}
fn n_id() -> [u8; 20] {
    let mut b = SplitMix(0xc09b).bytes20();
    b[0] = 0x69;
    b
}
fn c_addr(i: usize, v6: bool) -> SocketAddr {
    if v6 { format!("[fd00::9:{:x}]:6881", i + 1).parse().unwrap() } else { format!("10.0.9.{}:6881", i + 1).parse().unwrap() }
}
fn c_id(i: usize) -> [u8; 20] {
    // ever longer shared prefixes with the node id, a few per class
    let own = n_id();
    let mut b = SplitMix(0xc09b_00 + i as u64).bytes20();
    let share = (i / 3) * 2;
    for bit in 0..share {
        let v = (own[bit / 8] >> (7 - bit % 8)) & 1;
        b[bit / 8] = (b[bit / 8] & !(1 << (7 - bit % 8))) | (v << (7 - bit % 8));
    }
    let v = ((own[share / 8] >> (7 - share % 8)) & 1) ^ 1;
    b[share / 8] = (b[share / 8] & !(1 << (7 - share % 8))) | (v << (7 - share % 8));
    b
}
fn prober() -> SocketAddr {
    "10.99.0.9:999".parse().unwrap()
}
fn asker(v6: bool) -> SocketAddr {
    if v6 { "[fd00::99:2]:998".parse().unwrap() } else { "10.99.0.10:998".parse().unwrap() }
}

const INSTANTS: [u64; 3] = [4_000, 950_000, 1_500_000];
const INSTANTS_ALL_SILENT: [u64; 3] = [901_800, 902_400, 903_000];

fn targets() -> Vec<[u8; 20]> {
    let own = InfoHash::from(n_id());
    let mut v: Vec<[u8; 20]> = vec![n_id()];
    for b in [0usize, 1, 2, 3, 4, 5, 6, 7, 8, 9, 10, 11, 12, 20, 40, 80, 120, 158, 159] {
        v.push(flip_bit(own, b).into());
    }
    for i in 0..12 {
        v.push(c_id(i));
    }
    let mut r = SplitMix(0x7a9);
    for _ in 0..8 {
        v.push(r.bytes20());
    }
    v
}

pub fn build(cfg: &Cfg) -> (Scenario, Vec<Box<dyn Peer>>) {
    let mut sc = Scenario::new("reply-node-lists");
    sc.rng_seed = cfg.rng_seed;
    let id_of = |i: usize| if cfg.twins && i % 2 == 1 { c_id(i - 1) } else { c_id(i) };
    let universe: Arc<Vec<([u8; 20], SocketAddr)>> = Arc::new((0..cfg.contacts).map(|i| (id_of(i), c_addr(i, cfg.v6))).collect());
    let mut peers: Vec<Box<dyn Peer>> = vec![];
    for i in 0..cfg.contacts {
        let mut r = Responder::new(c_addr(i, cfg.v6), id_of(i), universe.clone());
        if cfg.all_silent {
            r.silent_from = Some(2_000);
        }
        if cfg.some_silent && i % 3 == 1 {
            r.silent_from = Some(2_000);
            // the others stop naming it so that it can be purged
            r.forget = vec![];
        }
        if cfg.some_silent {
            r.forget = (0..cfg.contacts).filter(|j| j % 3 == 1).map(|j| (c_addr(j, cfg.v6), 2_000)).collect();
        }
        peers.push(Box::new(r));
    }
    sc.nodes.push(NodeSpec { addr: n_addr(cfg.v6), id: Some(InfoHash::from(n_id())), read_only: false, announce_port: None, contacts: (0..cfg.contacts.min(8)).map(|i| c_addr(i, cfg.v6)).collect(), routers: vec![], start_ms: 0 });
    let tg = targets();
    if cfg.crowded {
        // one client announces 200 ports on target #0
        let c = asker(cfg.v6);
        sc.actions.push((When::At(2_500), Action::Inject { from: c, to: n_addr(cfg.v6), bytes: krpc::get_peers(b"tok?", &[0x33; 20], &tg[0], None), tag: String::new() }));
    }
    let instants = if cfg.all_silent { INSTANTS_ALL_SILENT } else { INSTANTS };
    for (k, t) in instants.iter().enumerate() {
        sc.actions.push((When::At(*t), Action::LoadContacts { node: 0, tag: format!("contacts{k}") }));
        sc.actions.push((When::At(*t), Action::ProbeTable { node: 0, from: prober(), tag: format!("dump{k}") }));
        if !cfg.all_silent {
            // a node that is itself in the table asks (target: its own id / some info-hash)
            sc.actions.push((When::At(*t), Action::PeerCommand { peer: c_addr(0, cfg.v6), cmd: format!("find_node {}", n_addr(cfg.v6)) }));
            sc.actions.push((When::At(*t), Action::PeerCommand { peer: c_addr(0, cfg.v6), cmd: format!("get_peers {}", n_addr(cfg.v6)) }));
        }
        for (j, target) in tg.iter().enumerate() {
            for (w, want) in [None, Some(vec!["n4"]), Some(vec!["n6"]), Some(vec!["n4", "n6"]), Some(vec!["n6", "n4"]), Some(vec!["n6", "n6"]), Some(vec!["n4", "n4"]), Some(vec!["n4", "zz"]), Some(vec![])].iter().enumerate() {
                // the less usual want lists on a third of the targets
                if w >= 4 && j % 3 != 0 {
                    continue;
                }
                let tid = format!("q{k}-{j:02}-{w}f");
                sc.actions.push((When::At(*t), Action::Inject { from: asker(cfg.v6), to: n_addr(cfg.v6), bytes: krpc::find_node(tid.as_bytes(), &[0x33; 20], target, want.as_deref()), tag: String::new() }));
                let tid = format!("q{k}-{j:02}-{w}g");
                sc.actions.push((When::At(*t), Action::Inject { from: asker(cfg.v6), to: n_addr(cfg.v6), bytes: krpc::get_peers(tid.as_bytes(), &[0x33; 20], target, want.as_deref()), tag: String::new() }));
            }
        }
    }
    sc.horizon_ms = instants[2] + 1_000;
    sc.link_latency = Arc::new(|_, _| 10);
    (sc, peers)
}

pub fn judge(cfg: &Cfg, res: &RunResult) -> (Vec<(String, String)>, u64, Vec<usize>) {
    let mut v = vec![];
    let n = n_addr(cfg.v6);
    let own = InfoHash::from(n_id());
    let tg = targets();
    let mut checked = 0u64;
    let mut sizes = vec![];
    for k in 0..3 {
        // dump
        let prefix = format!("dump{k}:");
        let mut table: BTreeSet<([u8; 20], SocketAddr)> = BTreeSet::new();
        for d in res.wire.iter().filter(|d| d.src == n && d.dst == prober()) {
            let p = krpc::parse(&d.bytes);
            if p.y == 'r' && p.tid.starts_with(prefix.as_bytes()) {
                for x in p.nodes.iter().chain(p.nodes6.iter()) {
                    table.insert(*x);
                }
            }
        }
        sizes.push(table.len());
        // independent view of the same instant: the contacts API
        for e in res.api.iter().filter(|e| e.tag == format!("contacts{k}")) {
            if let sim::ApiKind::Contacts { good, questionable } = &e.kind {
                let listed: BTreeSet<SocketAddr> = good.iter().chain(questionable.iter()).copied().collect();
                let dumped: BTreeSet<SocketAddr> = table.iter().map(|(_, a)| *a).collect();
                if listed != dumped {
                    let missing: Vec<_> = listed.difference(&dumped).take(3).collect();
                    v.push(("replies-do-not-offer-live-contacts".to_string(), format!("instant #{k}: load_contacts lists {} good + {} questionable contacts, the 161 find_node probes of the same millisecond offer {} nodes; never offered: {:?}", good.len(), questionable.len(), dumped.len(), missing)));
                }
            }
        }
        // replies to the table member that asked at this instant
        let c0 = c_addr(0, cfg.v6);
        let id0 = if cfg.twins { c_id(0) } else { c_id(0) };
        let instants = if cfg.all_silent { INSTANTS_ALL_SILENT } else { INSTANTS };
        for d in res.wire.iter().filter(|d| d.src == n && d.dst == c0 && d.sent_ms >= instants[k] && d.sent_ms <= instants[k] + 100) {
            let p = krpc::parse(&d.bytes);
            if p.y != 'r' || !(p.tid.starts_with(b"f") || p.tid.starts_with(b"g")) || p.tid.len() != 4 {
                continue;
            }
            checked += 1;
            let list = if cfg.v6 { &p.nodes6 } else { &p.nodes };
            let fam_total = table.iter().filter(|(_, a)| a.is_ipv6() == cfg.v6).count();
            if list.len() != fam_total.min(8) {
                v.push(("reply-to-a-table-member-node-count-not-min-8-n".to_string(), format!("instant #{k}: the reply to {c0} (itself a live node of the table) lists {} nodes, the table holds {} of that family", list.len(), fam_total)));
            }
            if p.tid.starts_with(b"f") && table.contains(&(id0, c0)) && !list.contains(&(id0, c0)) {
                v.push(("closer-node-missing-from-reply".to_string(), format!("instant #{k}: {c0} asks for its own id; it is a live node of the table (the closest one to that target) but is not listed")));
            }
        }
        let qprefix = format!("q{k}-");
        for d in res.wire.iter().filter(|d| d.src == n && d.dst == asker(cfg.v6)) {
            let p = krpc::parse(&d.bytes);
            if p.y != 'r' || !p.tid.starts_with(qprefix.as_bytes()) {
                continue;
            }
            let tid = String::from_utf8_lossy(&p.tid).to_string();
            let j: usize = tid[3..5].parse().unwrap_or(0);
            let w: usize = tid[6..7].parse().unwrap_or(0);
            let target = tg[j];
            checked += 1;
            let (want4, want6) = match w {
                0 | 8 => (!cfg.v6, cfg.v6),
                1 | 6 | 7 => (true, false),
                2 | 5 => (false, true),
                _ => (true, true),
            };
            for (list, is6, wanted) in [(&p.nodes, false, want4), (&p.nodes6, true, want6)] {
                let fam_total = table.iter().filter(|(_, a)| a.is_ipv6() == is6).count();
                if !wanted {
                    if !list.is_empty() {
                        v.push(("nodes-of-unrequested-family".to_string(), format!("want #{w}: {} nodes of family v{}", list.len(), if is6 { 6 } else { 4 })));
                    }
                    continue;
                }
                let set: BTreeSet<_> = list.iter().cloned().collect();
                if set.len() != list.len() {
                    v.push(("duplicate-node-in-reply".to_string(), format!("instant #{k} target #{j}: {} entries, {} distinct", list.len(), set.len())));
                }
                if let Some(x) = set.iter().find(|x| !table.contains(x)) {
                    v.push(("reply-lists-node-not-live-in-table".to_string(), format!("instant #{k} target #{j}: {} is not in the table dump of the same millisecond ({} live nodes)", x.1, table.len())));
                }
                if list.len() != fam_total.min(8) {
                    v.push(("reply-node-count-not-min-8-n".to_string(), format!("instant #{k} target #{j} want #{w}: {} nodes listed, table holds {} of that family", list.len(), fam_total)));
                }
                let p_own = leading_bit_count(own, InfoHash::from(target));
                for (id, a) in table.iter().filter(|(_, a)| a.is_ipv6() == is6) {
                    if leading_bit_count(InfoHash::from(*id), InfoHash::from(target)) > p_own && !set.contains(&(*id, *a)) {
                        v.push(("closer-node-missing-from-reply".to_string(), format!("instant #{k} target #{j}: {a} shares a longer prefix with the target than the node itself but is not listed")));
                    }
                }
            }
        }
    }
    if checked == 0 {
        v.push(("no-replies-observed".to_string(), "the serving node answered none of the probes".to_string()));
    }
    v.sort();
    v.dedup_by(|a, b| a.0 == b.0);
    (v, checked, sizes)
}

fn cfg_json(c: &Cfg) -> Value {
    json!({"contacts":c.contacts,"some_silent":c.some_silent,"all_silent":c.all_silent,"crowded":c.crowded,"twins":c.twins,"v6":c.v6,"rng_seed":c.rng_seed})
}

pub fn replay(v: &Value) -> i32 {
    if v["part"] == "binding-crowded" {
        let v6 = v["v6"].as_bool().unwrap_or(false);
        let cfg = super::c17::Cfg { v6_peers: v6, node_v6: v6, k: v["k"].as_u64().unwrap_or(200) as usize, table: 9, all_tid_lengths: false };
        let (_, f, _) = super::c17::run_one(&cfg, 1);
        let mut code = 0;
        for (tag, sig, what) in &f.items {
            if *tag == "C09" {
                println!("VIOLATION {sig}: {what}");
                code = 1;
            }
        }
        return code;
    }
    let c = &v["cfg"];
    let cfg = Cfg { contacts: c["contacts"].as_u64().unwrap_or(9) as usize, some_silent: c["some_silent"].as_bool().unwrap_or(false), all_silent: c["all_silent"].as_bool().unwrap_or(false), crowded: c["crowded"].as_bool().unwrap_or(false), twins: c["twins"].as_bool().unwrap_or(false), v6: c["v6"].as_bool().unwrap_or(false), rng_seed: c["rng_seed"].as_u64().unwrap_or(1) };
    let (sc, peers) = build(&cfg);
    let res = sim::run(&sc, peers, &mut sim::DefaultChooser);
    let (viol, checked, sizes) = judge(&cfg, &res);
    println!("replies checked {checked}, table sizes at the three instants {:?}", sizes);
    for (s, w) in &viol {
        println!("VIOLATION {s}: {w}");
    }
    if viol.is_empty() { 0 } else { 1 }
}

pub fn run(tier: Tier, rep: &mut Report) {
    let seed = 1 + seed();
    let mut cfgs = vec![];
    for contacts in tier.pick(vec![3usize, 9, 17], vec![1, 3, 9, 17, 30]) {
        for some_silent in [false, true] {
            for v6 in [false, true] {
                cfgs.push(Cfg { contacts, some_silent, all_silent: false, crowded: false, twins: false, v6, rng_seed: seed });
            }
        }
    }
    for contacts in [3usize, 9, 12] {
        for v6 in [false, true] {
            cfgs.push(Cfg { contacts, some_silent: false, all_silent: true, crowded: false, twins: false, v6, rng_seed: seed });
        }
    }
    // two nodes under one id
    for contacts in [4usize, 9, 10] {
        for v6 in [false, true] {
            cfgs.push(Cfg { contacts, some_silent: false, all_silent: false, crowded: false, twins: true, v6, rng_seed: seed });
        }
    }
    let outs = par_map(&cfgs, |_, cfg| {
        let (sc, peers) = build(cfg);
        let res = sim::run(&sc, peers, &mut sim::DefaultChooser);
        let (viol, checked, sizes) = judge(cfg, &res);
        (res.wire.len() as u64, viol, checked, sizes)
    });
    let mut info = vec![];
    for (cfg, (wire, viol, checked, sizes)) in cfgs.iter().zip(outs.iter()) {
        rep.add("e1_wire_events", *wire);
        rep.add("e1_replies_checked", *checked);
        info.push(json!({"cfg":cfg_json(cfg),"table_sizes_at_instants":sizes,"replies_checked":checked}));
        for (sig, what) in viol {
            rep.violation(format!("handler {sig}"), format!("{what} [{:?}]", cfg), json!({"engine":"E1","check":"C09","part":"binding","cfg":cfg_json(cfg)}));
        }
    }
    // replies that had to be cut down to fit a datagram must still carry the node list
    {
        let heavy: Vec<super::c17::Cfg> = [false, true].iter().flat_map(|v6| [150usize, 200, 500].into_iter().map(move |k| super::c17::Cfg { v6_peers: *v6, node_v6: *v6, k, table: 9, all_tid_lengths: false })).collect();
        let outs = par_map(&heavy, |_, cfg| {
            let (res, f, _) = super::c17::run_one(cfg, seed);
            (res.wire.len() as u64, f)
        });
        for (cfg, (wire, f)) in heavy.iter().zip(outs.iter()) {
            rep.add("e1_wire_events", *wire);
            rep.add("e1_replies_checked", f.replies_checked);
            for (tag, sig, what) in &f.items {
                if *tag == "C09" {
                    rep.violation(format!("handler crowded-store {sig}"), format!("{what} [{:?}]", cfg), json!({"engine":"E1","check":"C09","part":"binding-crowded","k":cfg.k,"v6":cfg.v6_peers}));
                }
            }
        }
    }
    rep.set("e1_binding_runs", json!(info));
    rep.sample(json!({"engine":"E1","part":"binding","cfg":cfg_json(&cfgs[2])}));
}

//! C11 — over hours, responsive contacts are kept fresh and silent ones are purged (E1).

use crate::common::*;
use crate::sim::peers::Responder;
use crate::sim::{self, krpc, Action, ApiKind, NodeSpec, Peer, RunResult, Scenario, When};
use btdht::InfoHash;
use serde_json::{json, Value};
use std::collections::BTreeMap;
use std::net::SocketAddr;
use std::sync::Arc;

#[derive(Clone, Debug)]
pub struct Contact {
    /// answers never name any node (a leaf: freshly started or table-less client); it pings the node once at 7 min
    pub leaf: bool,
    /// None = always answers; Some(t) = completely silent from t on
    pub silent_at: Option<u64>,
    /// not given to the builder: only named by contact 0 (or by the crowd)
    pub hearsay: bool,
}

#[derive(Clone, Debug)]
pub struct Cfg {
    pub contacts: Vec<Contact>,
    /// 12 extra always-answering responders (no periodic re-bootstrap)
    pub well_connected: bool,
    pub search_every_ms: Option<u64>,
    /// how long after a contact went silent the others keep naming it
    pub forget_after_ms: u64,
    pub minutes: u64,
    pub latency: u64,
    /// per-contact one-way latency overriding `latency` (index = contact)
    pub per_contact_latency: Vec<u64>,
    /// from the instant a contact goes silent, sending to it fails (host / port unreachable)
    pub unreachable_when_silent: bool,
    /// two announcing searches (different info-hashes) requested in the same millisecond at this instant
    pub announce_burst_at: Option<u64>,
    pub rng_seed: u64,
}

pub fn n_addr() -> SocketAddr {
    "10.0.0.11:6881".parse().unwrap()
}
fn n_id() -> [u8; 20] {
    let mut b = SplitMix(0xc11).bytes20();
    b[0] = 0xa1;
    b
}
fn c_addr(i: usize) -> SocketAddr {
    format!("10.0.11.{}:6881", i + 1).parse().unwrap()
}
fn c_id(i: usize) -> [u8; 20] {
    let mut b = SplitMix(0xc11_00 + i as u64).bytes20();
    // spread over buckets so that no bucket is ever full (premise)
    b[0] = [0x21, 0xe1, 0x81, 0xb1, 0xa9, 0xa5, 0xa3, 0xa0][i % 8] ^ ((i / 8) as u8) << 2;
    b
}
fn crowd_addr(i: usize) -> SocketAddr {
    format!("10.0.111.{}:6881", i + 1).parse().unwrap()
}
fn crowd_id(i: usize) -> [u8; 20] {
    let mut b = SplitMix(0xc11_9000 + i as u64).bytes20();
    // at most 6 per top-level prefix class
    b[0] = ((i % 2) as u8) << 7 | ((i / 2) as u8) << 4 | 0x05;
    b
}

pub fn build(cfg: &Cfg) -> (Scenario, Vec<Box<dyn Peer>>) {
    let mut sc = Scenario::new("long-run-maintenance");
    sc.rng_seed = cfg.rng_seed;
    let k = cfg.contacts.len();
    let mut uni: Vec<([u8; 20], SocketAddr)> = (0..k).map(|i| (c_id(i), c_addr(i))).collect();
    let crowd = if cfg.well_connected { 12 } else { 0 };
    for i in 0..crowd {
        uni.push((crowd_id(i), crowd_addr(i)));
    }
    let universe = Arc::new(uni);
    let forget: Vec<(SocketAddr, u64)> = cfg.contacts.iter().enumerate().filter_map(|(i, c)| c.silent_at.map(|t| (c_addr(i), t + cfg.forget_after_ms))).collect();
    let mut peers: Vec<Box<dyn Peer>> = vec![];
    for (i, c) in cfg.contacts.iter().enumerate() {
        let mut r = Responder::new(c_addr(i), c_id(i), universe.clone());
        r.silent_from = c.silent_at;
        r.forget = forget.clone();
        if c.leaf {
            r.node_list = crate::sim::peers::NodeList::None;
        }
        peers.push(Box::new(r));
    }
    for i in 0..crowd {
        let mut r = Responder::new(crowd_addr(i), crowd_id(i), universe.clone());
        r.forget = forget.clone();
        peers.push(Box::new(r));
    }
    let mut contacts: Vec<SocketAddr> = cfg.contacts.iter().enumerate().filter(|(_, c)| !c.hearsay).map(|(i, _)| c_addr(i)).collect();
    for i in 0..crowd {
        contacts.push(crowd_addr(i));
    }
    let serving = cfg.contacts.iter().any(|c| c.leaf);
    sc.nodes.push(NodeSpec { addr: n_addr(), id: Some(InfoHash::from(n_id())), read_only: !serving, announce_port: None, contacts, routers: vec![], start_ms: 0 });
    for (i, c) in cfg.contacts.iter().enumerate() {
        if c.leaf {
            // makes the leaf age at a different time than everybody else
            sc.actions.push((When::At(420_000), Action::PeerCommand { peer: c_addr(i), cmd: format!("ping {}", n_addr()) }));
        }
    }
    if let Some(every) = cfg.search_every_ms {
        let mut t = every;
        let mut j = 0;
        while t < cfg.minutes * 60_000 {
            sc.actions.push((When::At(t), Action::Search { node: 0, info_hash: InfoHash::sha1(format!("c11-{j}").as_bytes()), announce: j % 2 == 0, tag: format!("search{j}") }));
            t += every;
            j += 1;
        }
    }
    if let Some(t) = cfg.announce_burst_at {
        for j in 0..2 {
            // info-hashes next to contact 0's id: it is among the 8 closest of both searches and gets both announces
            let mut h = c_id(0);
            h[19] ^= 1 + j as u8;
            sc.actions.push((When::At(t), Action::Search { node: 0, info_hash: InfoHash::from(h), announce: true, tag: format!("burst{j}") }));
        }
    }
    if cfg.unreachable_when_silent {
        sc.fail_dst_from = cfg.contacts.iter().enumerate().filter_map(|(i, c)| c.silent_at.map(|t| (c_addr(i), t))).collect();
    }
    sc.sample = vec![(0, 3_000, 1_000)];
    sc.horizon_ms = cfg.minutes * 60_000;
    let lat = cfg.latency;
    let per: Vec<(SocketAddr, u64)> = cfg.per_contact_latency.iter().enumerate().map(|(i, l)| (c_addr(i), *l)).collect();
    sc.link_latency = Arc::new(move |a, b| per.iter().find(|(c, _)| *c == a || *c == b).map(|(_, l)| *l).unwrap_or(lat));
    (sc, peers)
}

pub fn judge(cfg: &Cfg, res: &RunResult) -> Vec<(String, String)> {
    let mut v = vec![];
    if !res.panics.is_empty() {
        v.push(("node-task-panicked".to_string(), res.panics[0].clone()));
    }
    let n = n_addr();
    // samples: (t, good, questionable)
    let samples: Vec<(u64, &Vec<SocketAddr>, &Vec<SocketAddr>)> = res
        .api
        .iter()
        .filter_map(|e| match &e.kind {
            ApiKind::Contacts { good, questionable } => Some((e.t_ms, good, questionable)),
            _ => None,
        })
        .collect();
    if samples.len() < (cfg.minutes * 60_000 / 3_000 - 2) as usize {
        v.push(("contacts-api-stopped-answering".to_string(), format!("{} samples in {} minutes", samples.len(), cfg.minutes)));
    }
    // last answer / last mention per contact, from the wire
    let mut last_answer: BTreeMap<SocketAddr, u64> = BTreeMap::new();
    let mut last_mention: BTreeMap<SocketAddr, u64> = BTreeMap::new();
    for d in res.wire.iter().filter(|d| d.dst == n && !d.delivered_ms.is_empty()) {
        let p = krpc::parse(&d.bytes);
        if p.y != 'r' {
            continue;
        }
        let t = d.delivered_ms[0];
        let e = last_answer.entry(d.src).or_insert(0);
        *e = (*e).max(t);
        for (_, a) in &p.nodes {
            if *a != d.src {
                let e = last_mention.entry(*a).or_insert(0);
                *e = (*e).max(t);
            }
        }
    }
    for (i, c) in cfg.contacts.iter().enumerate() {
        let a = c_addr(i);
        match c.silent_at {
            None => {
                // once listed: in every later sample; questionable stretches <= 30 s
                let first = samples.iter().position(|(_, g, q)| g.contains(&a) || q.contains(&a));
                match first {
                    None => {
                        // a responsive hearsay contact that nobody ever names is simply unknown
                        if !c.hearsay || last_mention.contains_key(&a) {
                            v.push(("responsive-contact-never-listed".to_string(), format!("contact {i} ({a}) answers every query but never appears in the contacts")));
                        }
                    }
                    Some(f) => {
                        let mut q_since: Option<u64> = None;
                        for (t, g, q) in &samples[f..] {
                            let is_g = g.contains(&a);
                            let is_q = q.contains(&a);
                            if !is_g && !is_q {
                                v.push(("responsive-contact-lost".to_string(), format!("contact {i} ({a}) always answers but is missing from the contacts at {t} ms (first listed at {} ms)", samples[f].0)));
                                break;
                            }
                            if is_q {
                                let since = *q_since.get_or_insert(*t);
                                if t - since > 30_000 + 3_000 {
                                    v.push(("responsive-contact-questionable-for-more-than-30s".to_string(), format!("contact {i} ({a}) listed questionable from {since} ms to at least {t} ms")));
                                    break;
                                }
                            } else {
                                q_since = None;
                            }
                        }
                    }
                }
            }
            Some(_) => {
                let la = last_answer.get(&a).copied();
                let lm = last_mention.get(&a).copied();
                let deadline = la.map(|t| t + 1_200_000).unwrap_or(0).max(lm.map(|t| t + 300_000).unwrap_or(0));
                for (t, g, q) in &samples {
                    if *t > deadline + 3_000 && (g.contains(&a) || q.contains(&a)) {
                        v.push((
                            "silent-contact-still-listed".to_string(),
                            format!("contact {i} ({a}) last answered at {:?} ms, was last named at {:?} ms, and is still listed at {t} ms (deadline {deadline} ms)", la, lm),
                        ));
                        break;
                    }
                }
            }
        }
    }
    v
}

fn cfg_json(c: &Cfg) -> Value {
    json!({"contacts": c.contacts.iter().map(|x| json!({"silent_at":x.silent_at,"hearsay":x.hearsay,"leaf":x.leaf})).collect::<Vec<_>>(), "well_connected": c.well_connected, "search_every_ms": c.search_every_ms, "forget_after_ms": c.forget_after_ms, "minutes": c.minutes, "latency": c.latency, "per_contact_latency": c.per_contact_latency, "unreachable_when_silent": c.unreachable_when_silent, "announce_burst_at": c.announce_burst_at, "rng_seed": c.rng_seed})
}
fn cfg_parse(v: &Value) -> Cfg {
    Cfg {
        contacts: v["contacts"].as_array().map(|a| a.iter().map(|x| Contact { leaf: x["leaf"].as_bool().unwrap_or(false), silent_at: x["silent_at"].as_u64(), hearsay: x["hearsay"].as_bool().unwrap_or(false) }).collect()).unwrap_or_default(),
        well_connected: v["well_connected"].as_bool().unwrap_or(false),
        search_every_ms: v["search_every_ms"].as_u64(),
        forget_after_ms: v["forget_after_ms"].as_u64().unwrap_or(0),
        minutes: v["minutes"].as_u64().unwrap_or(60),
        latency: v["latency"].as_u64().unwrap_or(20),
        per_contact_latency: v["per_contact_latency"].as_array().map(|a| a.iter().map(|x| x.as_u64().unwrap()).collect()).unwrap_or_default(),
        unreachable_when_silent: v["unreachable_when_silent"].as_bool().unwrap_or(false),
        announce_burst_at: v["announce_burst_at"].as_u64(),
        rng_seed: v["rng_seed"].as_u64().unwrap_or(1),
    }
}

pub fn replay(v: &Value) -> i32 {
    let cfg = cfg_parse(&v["cfg"]);
    let (sc, peers) = build(&cfg);
    let res = sim::run(&sc, peers, &mut sim::DefaultChooser);
    let mut last = String::new();
    for e in &res.api {
        if let ApiKind::Contacts { good, questionable } = &e.kind {
            let s = format!("good={:?} questionable={:?}", good, questionable);
            if s != last {
                println!("  {:>9} ms {s}", e.t_ms);
                last = s;
            }
        }
    }
    let viol = judge(&cfg, &res);
    for (s, w) in &viol {
        println!("VIOLATION {s}: {w}");
    }
    if viol.is_empty() { 0 } else { 1 }
}

pub fn configs(tier: Tier, seed: u64) -> Vec<Cfg> {
    let mut out = vec![];
    let minutes = tier.pick(60, 240);
    let silences: Vec<u64> = vec![0, 60_000, 840_000, 960_000, 3_600_000];
    let kmax = tier.pick(3, 5);
    for k in 1..=kmax {
        for mask in 0u32..(1 << k) {
            // mask bit set = goes silent
            let ts: Vec<u64> = if mask == 0 { vec![0] } else { silences.iter().copied().filter(|t| *t < minutes * 60_000 - 1_500_000 || *t == 0).collect() };
            for t in ts {
                for well_connected in [false, true] {
                    for (search, forget) in [(None, 0u64), (Some(600_000u64), 600_000u64)] {
                        if tier == Tier::Quick && k == 3 && (mask.count_ones() == 2 || (search.is_some() != well_connected)) {
                            continue;
                        }
                        let contacts: Vec<Contact> = (0..k).map(|i| Contact { leaf: false, silent_at: if mask & (1 << i) != 0 { Some(t) } else { None }, hearsay: false }).collect();
                        // everybody silent from the start in the single-contact regime never bootstraps: fine, nothing listed
                        out.push(Cfg { contacts, well_connected, search_every_ms: search, forget_after_ms: forget, minutes, latency: 20, per_contact_latency: vec![], unreachable_when_silent: false, announce_burst_at: None, rng_seed: seed });
                    }
                }
            }
        }
    }
    // hearsay-only contacts (named by the others), responsive and silent
    for well_connected in [false, true] {
        for (s1, s2) in [(None, None), (None, Some(0u64)), (Some(960_000u64), None), (Some(60_000), Some(0))] {
            out.push(Cfg {
                contacts: vec![Contact { leaf: false, silent_at: None, hearsay: false }, Contact { leaf: false, silent_at: s1, hearsay: true }, Contact { leaf: false, silent_at: s2, hearsay: true }],
                well_connected,
                search_every_ms: None,
                forget_after_ms: 300_000,
                minutes,
                latency: 20,
                per_contact_latency: vec![],
                unreachable_when_silent: false,
                announce_burst_at: None,
                rng_seed: seed,
            });
        }
    }
    // leaf contacts (their answers name nobody), alone and next to ordinary ones, in both regimes
    for well_connected in [false, true] {
        for n in [1usize, 2] {
            let mut contacts: Vec<Contact> = (0..n).map(|_| Contact { leaf: false, silent_at: None, hearsay: false }).collect();
            // known by hearsay only: the periodic re-bootstrap never pings it as a starting node
            contacts.push(Contact { leaf: true, silent_at: None, hearsay: true });
            let mut c2 = contacts.clone();
            c2.last_mut().unwrap().hearsay = false;
            out.push(Cfg { contacts: c2, well_connected, search_every_ms: None, forget_after_ms: 0, minutes, latency: 20, per_contact_latency: vec![], unreachable_when_silent: false, announce_burst_at: None, rng_seed: seed });
            out.push(Cfg { contacts, well_connected, search_every_ms: None, forget_after_ms: 0, minutes, latency: 20, per_contact_latency: vec![], unreachable_when_silent: false, announce_burst_at: None, rng_seed: seed });
        }
    }
    // latencies (round trips stay below the shortest per-query timeout)
    for latency in [1u64, 200] {
        for well_connected in [false, true] {
            out.push(Cfg { contacts: vec![Contact { leaf: false, silent_at: None, hearsay: false }, Contact { leaf: false, silent_at: Some(840_000), hearsay: false }], well_connected, search_every_ms: Some(600_000), forget_after_ms: 0, minutes, latency, per_contact_latency: vec![], unreachable_when_silent: false, announce_burst_at: None, rng_seed: seed });
        }
    }
    // every assignment of link latencies {1,20,200} ms to two contacts (one of them going silent at 14 min)
    for l0 in [1u64, 20, 200] {
        for l1 in [1u64, 20, 200] {
            for (s0, s1) in [(None, Some(840_000u64)), (Some(840_000u64), None), (None, None)] {
                for well_connected in [false, true] {
                    out.push(Cfg { contacts: vec![Contact { leaf: false, silent_at: s0, hearsay: false }, Contact { leaf: false, silent_at: s1, hearsay: false }], well_connected, search_every_ms: None, forget_after_ms: 0, minutes, latency: 20, per_contact_latency: vec![l0, l1], unreachable_when_silent: false, announce_burst_at: None, rng_seed: seed });
                }
            }
        }
    }
    // two overlapping announcing searches, then nothing: responsive contacts must survive the next 15-minute ageing
    for well_connected in [false, true] {
        for n in [1usize, 3] {
            for t in [30_000u64, 600_000] {
                let contacts: Vec<Contact> = (0..n).map(|_| Contact { leaf: false, silent_at: None, hearsay: false }).collect();
                out.push(Cfg { contacts, well_connected, search_every_ms: None, forget_after_ms: 0, minutes, latency: 20, per_contact_latency: vec![], unreachable_when_silent: false, announce_burst_at: Some(t), rng_seed: seed });
            }
        }
    }
    // a contact that goes silent and towards which sending fails from then on (host unreachable)
    for well_connected in [false, true] {
        for t in [60_000u64, 840_000, 960_000] {
            for search in [None, Some(600_000u64)] {
                out.push(Cfg { contacts: vec![Contact { leaf: false, silent_at: None, hearsay: false }, Contact { leaf: false, silent_at: Some(t), hearsay: false }], well_connected, search_every_ms: search, forget_after_ms: 0, minutes, latency: 20, per_contact_latency: vec![], unreachable_when_silent: true, announce_burst_at: None, rng_seed: seed });
            }
        }
    }
    if tier == Tier::Thorough {
        for k in 6..=8usize {
            for well_connected in [false, true] {
                let contacts: Vec<Contact> = (0..k).map(|i| Contact { leaf: false, silent_at: if i % 3 == 1 { Some(960_000) } else { None }, hearsay: i % 4 == 3 }).collect();
                out.push(Cfg { contacts, well_connected, search_every_ms: Some(600_000), forget_after_ms: 600_000, minutes, latency: 20, per_contact_latency: vec![], unreachable_when_silent: false, announce_burst_at: None, rng_seed: seed });
            }
        }
    }
    out
}

pub fn run(tier: Tier) -> Report {
    let mut rep = Report::new("C11", "model_checking", tier);
    let seed = 1 + seed();
    let cfgs = configs(tier, seed);
    let outs = par_map(&cfgs, |_, cfg| {
        let (sc, peers) = build(cfg);
        let res = sim::run(&sc, peers, &mut sim::DefaultChooser);
        let samples = res.api.iter().filter(|e| matches!(e.kind, ApiKind::Contacts { .. })).count() as u64;
        (sim::trace_hash(&res, ""), res.wire.len() as u64, judge(cfg, &res), samples)
    });
    let mut distinct = std::collections::HashSet::new();
    for (cfg, (h, wire, viol, samples)) in cfgs.iter().zip(outs.iter()) {
        distinct.insert(*h);
        rep.add("transitions", *wire);
        rep.add("contact_samples_checked", *samples);
        for (sig, what) in viol {
            rep.violation(sig.clone(), format!("{what} [{:?}]", cfg), json!({"engine":"E1","check":"C11","cfg":cfg_json(cfg)}));
        }
    }
    rep.set("configurations", cfgs.len() as u64);
    rep.set("virtual_minutes_per_run", tier.pick(60u64, 240u64));
    rep.set("evaluations", cfgs.len() as u64);
    rep.set("states", distinct.len() as u64);
    rep.set("distinct_nontrivial", distinct.len() as u64);
    rep.set("traces_validated_against_impl", cfgs.len() as u64);
    rep.sample(json!({"cfg":cfg_json(&cfgs[3])}));
    rep.sample(json!({"cfg":cfg_json(&cfgs[cfgs.len() - 1])}));
    rep.observations.push("not asserted: contacts slower than the 500 ms bootstrap ping timeout (the statement's 'always answers' is read as answering within the asker's timeout; round trips here are <= 400 ms)".into());
    rep.set("rule", "One real node, 1..3 (thorough ..5, plus 6..8 mixed) contacts, every partition into always-answering and going silent at t in {0, 1 min, 14 min, 16 min, 1 h}, contacts given to the builder or known by hearsay only, single-contact regime (re-bootstrap every 5 s) and well-connected regime (12 more responders), with/without a search every 10 minutes, the others stop naming a silent contact 0/5/10 minutes after it went silent, latencies {1,20,200} ms, 1 h (thorough 4 h) of virtual time, load_contacts sampled every 3 virtual seconds. Oracle: a responsive contact once listed is in every later sample and never questionable for more than 30 s (+ one sampling period); a silent contact is absent from every sample later than max(last answer + 20 min, last mention + 5 min). One deterministic execution per configuration (loss-free premise, default schedule).");
    rep
}

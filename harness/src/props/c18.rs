//! C18 — table refresh keeps one steady cadence however often the node re-bootstraps (E1 + probes).

use crate::common::*;
use crate::sim::peers::Responder;
use crate::sim::{self, DefaultChooser, NodeSpec, Peer, RunResult, Scenario};
use btdht::InfoHash;
use serde_json::{json, Value};
use std::net::SocketAddr;
use std::sync::Arc;

#[derive(Clone, Debug)]
pub struct Cfg {
    pub contacts: usize,
    /// contacts are unreachable during [50 min, 60 min) of every hour
    pub outages: bool,
    pub minutes: u64,
    pub latency: u64,
    /// the contacts advertise one more node towards which every send fails (host unreachable)
    pub unreachable_hearsay: bool,
    /// announcing searches at this period (ms), with slightly varying phase
    pub search_every_ms: Option<u64>,
    /// every send_to takes this long
    pub send_delay_ms: u64,
    /// the application calls bootstrapped() at this period
    pub poll_bootstrapped_ms: Option<u64>,
    /// the socket reports a receive error (ConnectionReset, as after an ICMP error) this often
    pub recv_error_every_ms: Option<u64>,
    /// (at, ms): a client pings the node at `at`; the send_to of the reply completes only `ms` later
    pub stall: Option<(u64, u64)>,
    pub rng_seed: u64,
}

pub fn node_addr() -> SocketAddr {
    "10.0.0.1:6881".parse().unwrap()
}
pub fn contact_addr(i: usize) -> SocketAddr {
    format!("10.0.1.{}:6881", i + 1).parse().unwrap()
}
pub fn contact_id(i: usize) -> [u8; 20] {
    let mut r = SplitMix(0xc18 + i as u64);
    let mut b = r.bytes20();
    b[0] = (i as u8) << 5 | (b[0] & 0x1f);
    b
}
pub fn node_id() -> InfoHash {
    let mut b = SplitMix(0xc18_000).bytes20();
    b[0] |= 0x80;
    InfoHash::from(b)
}

pub fn build(cfg: &Cfg) -> (Scenario, Vec<Box<dyn Peer>>) {
    let mut sc = Scenario::new(&format!("refresh-cadence {:?}", cfg));
    sc.rng_seed = cfg.rng_seed;
    let mut uni: Vec<([u8; 20], SocketAddr)> = (0..cfg.contacts).map(|i| (contact_id(i), contact_addr(i))).collect();
    if cfg.unreachable_hearsay {
        uni.push((contact_id(77), contact_addr(77)));
        sc.fail_dst = vec![contact_addr(77)];
    }
    let universe: Arc<Vec<([u8; 20], SocketAddr)>> = Arc::new(uni);
    let mut peers: Vec<Box<dyn Peer>> = vec![];
    for i in 0..cfg.contacts {
        let mut r = Responder::new(contact_addr(i), contact_id(i), universe.clone());
        if cfg.outages {
            let mut up = vec![];
            let hours = cfg.minutes / 60 + 1;
            for h in 0..hours {
                up.push((h * 3_600_000, h * 3_600_000 + 3_000_000));
            }
            r.up = up;
        }
        peers.push(Box::new(r));
    }
    sc.nodes.push(NodeSpec {
        addr: node_addr(),
        id: Some(node_id()),
        read_only: false,
        announce_port: None,
        contacts: (0..cfg.contacts).map(contact_addr).collect(),
        routers: vec![],
        start_ms: 0,
    });
    let lat = cfg.latency;
    sc.link_latency = Arc::new(move |_, _| lat);
    sc.horizon_ms = cfg.minutes * 60_000;
    sc.send_delay_ms = cfg.send_delay_ms;
    if let Some(every) = cfg.search_every_ms {
        let mut t = 7_000u64;
        let mut j = 0u64;
        while t < cfg.minutes * 60_000 {
            sc.actions.push((crate::sim::When::At(t), crate::sim::Action::Search { node: 0, info_hash: InfoHash::sha1(format!("c18-{j}").as_bytes()), announce: true, tag: format!("s{j}") }));
            // phases drift through the 6 s refresh period and the 5 s re-bootstrap period
            t += every + (j % 7) * 190;
            j += 1;
        }
    }
    if let Some(every) = cfg.poll_bootstrapped_ms {
        let mut t = 2_000u64;
        let mut j = 0;
        while t < cfg.minutes * 60_000 {
            sc.actions.push((crate::sim::When::At(t), crate::sim::Action::Bootstrapped { node: 0, tag: format!("poll{j}") }));
            t += every;
            j += 1;
        }
    }
    if let Some(every) = cfg.recv_error_every_ms {
        let mut t = 3_000u64;
        while t < cfg.minutes * 60_000 {
            sc.actions.push((crate::sim::When::At(t), crate::sim::Action::RecvError { node: 0, kind: if (t / every) % 2 == 0 { "ConnectionReset".into() } else { "ConnectionRefused".into() } }));
            t += every;
        }
    }
    if let Some((at, ms)) = cfg.stall {
        let client: SocketAddr = "10.0.9.9:4009".parse().unwrap();
        peers.push(Box::new(crate::sim::peers::Sink { addr: client, received: vec![] }));
        sc.stall_dst = vec![(client, at, ms)];
        sc.actions.push((crate::sim::When::At(at), crate::sim::Action::Inject { from: client, to: node_addr(), bytes: sim::krpc::ping(b"st", &[0x44; 20]), tag: String::new() }));
    }
    sc.sample = vec![(0, 1000, 500)];
    (sc, peers)
}

pub struct Verdict {
    pub violations: Vec<(String, String)>,
    pub rounds: u64,
    pub attempts: u64,
    pub max_per_min: u64,
    pub max_queue: usize,
}

pub fn judge(cfg: &Cfg, res: &RunResult) -> Verdict {
    let own: [u8; 20] = node_id().into();
    // bootstrap attempts: instants at which the node sends find_node for its own id
    let mut attempt_times: Vec<u64> = res
        .wire
        .iter()
        .filter(|d| d.from_real)
        .filter(|d| {
            let p = sim::krpc::parse(&d.bytes);
            p.is_query("find_node") && p.target == Some(own)
        })
        .map(|d| d.sent_ms)
        .collect();
    attempt_times.sort();
    attempt_times.dedup();
    let mut v = vec![];
    let s = &res.probe_samples;
    let mut max_per_min = 0u64;
    let mut j = 0usize;
    for i in 0..s.len() {
        while j < s.len() && s[j].0 < s[i].0 + 60_000 {
            j += 1;
        }
        if j >= s.len() {
            break;
        }
        let rounds = s[j].1 - s[i].1;
        max_per_min = max_per_min.max(rounds);
        let attempts = attempt_times.iter().filter(|t| **t + 1_000 >= s[i].0 && **t <= s[j].0 + 1_000).count() as u64;
        if rounds > 11 + attempts && v.is_empty() {
            v.push((
                "refresh-rate-grows".to_string(),
                format!(
                    "{} refresh rounds in the 60 s window starting at {} ms with {} bootstrap attempts in it (allowed {}); {:?}",
                    rounds,
                    s[i].0,
                    attempts,
                    11 + attempts,
                    cfg
                ),
            ));
        }
    }
    // the same on the scale of one interval: within 6 s, one timer round (two if the window touches two
    // intervals) plus one per bootstrap attempt that may complete in it
    let mut j = 0usize;
    for i in 0..s.len() {
        while j + 1 < s.len() && s[j + 1].0 <= s[i].0 + 6_000 {
            j += 1;
        }
        if j <= i {
            continue;
        }
        let rounds = s[j].1 - s[i].1;
        let attempts = attempt_times.iter().filter(|t| **t + 15_000 >= s[i].0 && **t <= s[j].0 + 1_000).count() as u64;
        if rounds > 2 + attempts && v.is_empty() {
            v.push(("refresh-burst".to_string(), format!("{} refresh rounds between {} and {} ms with {} bootstrap attempts that can have completed in that window (allowed {}); {:?}", rounds, s[i].0, s[j].0, attempts, 2 + attempts, cfg)));
        }
    }
    let max_queue = s.iter().map(|x| x.2).max().unwrap_or(0).max(res.max_timer_queue);
    // without searches: the refresh timer (+ slack); with searches: plus the per-query and end-game timers of
    // the (at most two overlapping) lookups
    let queue_bound = if cfg.search_every_ms.is_some() { 40 } else { 4 };
    if max_queue > queue_bound {
        v.push((
            "timer-queue-grows".to_string(),
            format!("timer queue reached {} pending checks (bound {}); {:?}", max_queue, queue_bound, cfg),
        ));
    }
    if !res.panics.is_empty() {
        v.push(("node-task-panicked".to_string(), res.panics[0].clone()));
    }
    Verdict { violations: v, rounds: res.refresh_rounds, attempts: attempt_times.len() as u64, max_per_min, max_queue }
}

fn cfg_json(c: &Cfg) -> Value {
    json!({"contacts":c.contacts,"outages":c.outages,"minutes":c.minutes,"latency":c.latency,"unreachable_hearsay":c.unreachable_hearsay,"search_every_ms":c.search_every_ms,"send_delay_ms":c.send_delay_ms,"poll_bootstrapped_ms":c.poll_bootstrapped_ms,"recv_error_every_ms":c.recv_error_every_ms,"stall":c.stall.map(|(a,b)| json!([a,b])),"rng_seed":c.rng_seed})
}

pub fn replay(v: &Value) -> i32 {
    let c = &v["cfg"];
    let cfg = Cfg {
        contacts: c["contacts"].as_u64().unwrap_or(1) as usize,
        outages: c["outages"].as_bool().unwrap_or(false),
        minutes: c["minutes"].as_u64().unwrap_or(10),
        latency: c["latency"].as_u64().unwrap_or(20),
        unreachable_hearsay: c["unreachable_hearsay"].as_bool().unwrap_or(false),
        search_every_ms: c["search_every_ms"].as_u64(),
        send_delay_ms: c["send_delay_ms"].as_u64().unwrap_or(0),
        poll_bootstrapped_ms: c["poll_bootstrapped_ms"].as_u64(),
        recv_error_every_ms: c["recv_error_every_ms"].as_u64(),
        stall: c["stall"].as_array().map(|a| (a[0].as_u64().unwrap_or(0), a[1].as_u64().unwrap_or(0))),
        rng_seed: c["rng_seed"].as_u64().unwrap_or(1),
    };
    let (sc, peers) = build(&cfg);
    let res = sim::run(&sc, peers, &mut DefaultChooser);
    let verdict = judge(&cfg, &res);
    println!("rounds={} attempts={} max_rounds_per_60s={} max_timer_queue={}", verdict.rounds, verdict.attempts, verdict.max_per_min, verdict.max_queue);
    for (s, w) in &verdict.violations {
        println!("VIOLATION {s}: {w}");
    }
    if verdict.violations.is_empty() { 0 } else { 1 }
}

pub fn run(tier: Tier) -> Report {
    let mut rep = Report::new("C18", "model_checking", tier);
    let seed = seed();
    let mut cfgs = vec![];
    let lens: Vec<u64> = tier.pick(vec![10], vec![10, 60, 360]);
    for &minutes in &lens {
        for contacts in 1..=3usize {
            for outages in [false, true] {
                if outages && minutes < 60 {
                    continue;
                }
                for latency in [1u64, 20, 200] {
                    if minutes >= 360 && latency != 20 {
                        continue;
                    }
                    cfgs.push(Cfg { contacts, outages, minutes, latency, unreachable_hearsay: false, search_every_ms: None, send_delay_ms: 0, poll_bootstrapped_ms: None, recv_error_every_ms: None, stall: None, rng_seed: 1 + seed });
                    if latency == 20 {
                        cfgs.push(Cfg { contacts, outages, minutes, latency, unreachable_hearsay: true, search_every_ms: None, send_delay_ms: 0, poll_bootstrapped_ms: None, recv_error_every_ms: None, stall: None, rng_seed: 1 + seed });
                    }
                }
            }
        }
    }
    if tier == Tier::Quick {
        for contacts in 1..=3usize {
            cfgs.push(Cfg { contacts, outages: false, minutes: 60, latency: 20, unreachable_hearsay: contacts == 2, search_every_ms: None, send_delay_ms: 0, poll_bootstrapped_ms: None, recv_error_every_ms: None, stall: None, rng_seed: 1 + seed });
        }
        cfgs.push(Cfg { contacts: 1, outages: true, minutes: 70, latency: 20, unreachable_hearsay: false, search_every_ms: None, send_delay_ms: 0, poll_bootstrapped_ms: None, recv_error_every_ms: None, stall: None, rng_seed: 1 + seed });
    }
    // user activity: announcing searches every ~3 s, sends that take time (handler awaits inside a lookup
    // while bootstrap completions arrive)
    for contacts in 1..=2usize {
        for (every, delay) in [(2_600u64, 300u64), (3_100, 0), (2_600, 40)] {
            cfgs.push(Cfg { contacts, outages: false, minutes: tier.pick(20, 60), latency: 20, unreachable_hearsay: contacts == 1, search_every_ms: Some(every), send_delay_ms: delay, poll_bootstrapped_ms: None, recv_error_every_ms: None, stall: None, rng_seed: 1 + seed });
        }
    }
    // a node without anybody to ask (first node of a network) whose application keeps retrying its searches
    for every in [100u64, 1_000] {
        cfgs.push(Cfg { contacts: 0, outages: false, minutes: 5, latency: 20, unreachable_hearsay: false, search_every_ms: Some(every), send_delay_ms: 0, poll_bootstrapped_ms: None, recv_error_every_ms: None, stall: None, rng_seed: 1 + seed });
    }
    // receive errors (ICMP errors surfacing on the socket) and a send_to that blocks for a minute
    for contacts in [1usize, 3] {
        for every in [2_000u64, 700] {
            cfgs.push(Cfg { contacts, outages: false, minutes: 10, latency: 20, unreachable_hearsay: false, search_every_ms: None, send_delay_ms: 0, poll_bootstrapped_ms: None, recv_error_every_ms: Some(every), stall: None, rng_seed: 1 + seed });
        }
        for (at, ms) in [(30_000u64, 60_000u64), (61_500, 20_000), (100_000, 7_000)] {
            cfgs.push(Cfg { contacts, outages: false, minutes: 5, latency: 20, unreachable_hearsay: false, search_every_ms: None, send_delay_ms: 0, poll_bootstrapped_ms: None, recv_error_every_ms: None, stall: Some((at, ms)), rng_seed: 1 + seed });
        }
    }
    // an application that polls bootstrapped() (status display) while the node is bootstrapped
    for contacts in [1usize, 3] {
        cfgs.push(Cfg { contacts, outages: false, minutes: 10, latency: 20, unreachable_hearsay: false, search_every_ms: None, send_delay_ms: 0, poll_bootstrapped_ms: Some(200), recv_error_every_ms: None, stall: None, rng_seed: 1 + seed });
    }
    let outs = par_map(&cfgs, |_, cfg| {
        let (sc, peers) = build(cfg);
        let res = sim::run(&sc, peers, &mut DefaultChooser);
        let verdict = judge(cfg, &res);
        (sim::trace_hash(&res, ""), res.wire.len() as u64, verdict)
    });
    let mut distinct = std::collections::HashSet::new();
    let mut info = vec![];
    for (cfg, (h, wire, verdict)) in cfgs.iter().zip(outs.iter()) {
        distinct.insert(*h);
        rep.add("transitions", *wire);
        rep.add("refresh_rounds_observed", verdict.rounds);
        rep.add("bootstrap_attempts_observed", verdict.attempts);
        info.push(json!({"cfg":cfg_json(cfg),"refresh_rounds":verdict.rounds,"bootstrap_attempts":verdict.attempts,"max_rounds_per_60s":verdict.max_per_min,"max_timer_queue":verdict.max_queue}));
        for (sig, what) in &verdict.violations {
            rep.violation(sig.clone(), what.clone(), json!({"engine":"E1","check":"C18","cfg":cfg_json(cfg)}));
        }
    }
    rep.set("evaluations", cfgs.len() as u64);
    rep.set("states", distinct.len() as u64);
    rep.set("distinct_nontrivial", distinct.len() as u64);
    rep.set("traces_validated_against_impl", cfgs.len() as u64);
    rep.set("runs", json!(info));
    rep.sample(json!({"cfg":cfg_json(&cfgs[0])}));
    rep.set("rule", "One real node, 1..3 responsive contacts, no routers (re-bootstrap every ~5 s), with/without 10-minute outages each hour, latencies {1,20,200} ms, run lengths 10 min (quick) / 10 min, 1 h, 6 h (thorough); refresh rounds and timer-queue length read from the hook probes every virtual second; every 60 s window: rounds <= 11 + bootstrap attempts seen on the wire in the window; queue <= 4 with no search running. One deterministic execution per configuration (the property quantifies over run lengths and re-bootstrap counts, not schedules).");
    rep.assume("bootstrap completions are bounded from above by bootstrap attempts visible on the wire (find_node for the node's own id)");
    rep
}

//! C17 — every datagram the node emits fits its peers' 1500-byte receive buffer (E1).
//! Dedicated scenarios here; the same size monitor also runs over the scenario sets of other
//! properties (see `universal`).

use super::single::{self, NodeCfg};
use crate::common::*;
use crate::sim::{self, Action, When};
use serde_json::{json, Value};

#[derive(Clone, Debug)]
pub struct Cfg {
    pub v6_peers: bool,
    pub node_v6: bool,
    pub k: usize,
    pub table: usize,
    /// ask with every transaction id length 0..=32 instead of {0, 8, 32}
    pub all_tid_lengths: bool,
}

pub fn run_one(cfg: &Cfg, rng_seed: u64) -> (sim::RunResult, single::Findings, NodeCfg) {
    let ncfg = NodeCfg { v6: cfg.node_v6, read_only: false, table: cfg.table, store: false };
    let mut b = single::build(&ncfg, 0, rng_seed);
    let announcer = if cfg.v6_peers { 2 } else { 0 };
    let mut t = b.ready_ms;
    b.sc.actions.push((When::At(t), Action::PeerCommand { peer: single::client_addr(announcer), cmd: "gp 1 -".into() }));
    t += 20;
    for p in 0..cfg.k {
        // 4 announces per ms keep the virtual duration short
        b.sc.actions.push((When::At(t + (p / 4) as u64), Action::PeerCommand { peer: single::client_addr(announcer), cmd: format!("ann 1 {} valid", 1000 + p) }));
    }
    t += (cfg.k / 4) as u64 + 50;
    // queries from a client of the same family as the stored peers, and from the other family
    let askers: [usize; 2] = if cfg.v6_peers { [2, 1] } else { [1, 2] };
    for (ai, asker) in askers.iter().enumerate() {
        for (wi, w) in ["-", "n4", "n6", "both"].iter().enumerate() {
            let lens: Vec<usize> = if cfg.all_tid_lengths { (0..=32).collect() } else { vec![0, 8, 32] };
            for (ti, tl) in lens.iter().enumerate() {
                let tid: String = hex(&vec![b'x'; *tl]);
                let at = t + (ai * 4 * 33 + wi * 33 + ti) as u64 * 2;
                b.sc.actions.push((When::At(at), Action::PeerCommand { peer: single::client_addr(*asker), cmd: format!("gp 1 {w} tid={tid}") }));
            }
        }
    }
    t += 600;
    // transaction ids far beyond the statement's 32 bytes: nothing longer than a datagram may leave the node
    for (i, tl) in [1000usize, 1200, 1300, 1390].iter().enumerate() {
        let tid = hex(&vec![b'z'; *tl]);
        b.sc.actions.push((When::At(t + 400 + 10 * i as u64), Action::PeerCommand { peer: single::client_addr(askers[0]), cmd: format!("gp 1 both tid={tid}") }));
        b.sc.actions.push((When::At(t + 405 + 10 * i as u64), Action::PeerCommand { peer: single::client_addr(askers[0]), cmd: format!("fn both tid={tid}") }));
    }
    // other reply kinds with the longest tid
    let tid32 = hex(&[b'y'; 32]);
    for (i, cmd) in [format!("fn both tid={tid32}"), format!("ping tid={tid32}"), format!("ann 1 7 random tid={tid32}"), format!("ann 9 7 valid tid={tid32}")].iter().enumerate() {
        b.sc.actions.push((When::At(t + 10 * i as u64), Action::PeerCommand { peer: single::client_addr(askers[0]), cmd: cmd.clone() }));
    }
    b.sc.horizon_ms = t + 700;
    let res = single::run_built(b);
    let mut model = single::Model::default();
    let f = single::check(&res, &ncfg, &mut model);
    (res, f, ncfg)
}

fn cfg_json(c: &Cfg) -> Value {
    json!({"v6_peers":c.v6_peers,"node_v6":c.node_v6,"k":c.k,"table":c.table,"all_tid_lengths":c.all_tid_lengths})
}

pub fn replay(v: &Value) -> i32 {
    if let Some(l) = v["long_token"].as_u64() {
        let (_, max) = long_token_run(l as usize, v["v6"].as_bool().unwrap_or(false), None);
        println!("token of {l} bytes -> largest datagram emitted by the node: {max} bytes");
        return if max > 1500 { 1 } else { 0 };
    }
    let c = &v["cfg"];
    let cfg = Cfg { v6_peers: c["v6_peers"].as_bool().unwrap_or(false), node_v6: c["node_v6"].as_bool().unwrap_or(false), k: c["k"].as_u64().unwrap_or(0) as usize, table: c["table"].as_u64().unwrap_or(0) as usize, all_tid_lengths: c["all_tid_lengths"].as_bool().unwrap_or(false) };
    let (res, f, ncfg) = run_one(&cfg, v["rng_seed"].as_u64().unwrap_or(1));
    let node = single::node_addr(ncfg.v6);
    let mut sizes: Vec<usize> = res.wire.iter().filter(|d| d.src == node).map(|d| d.bytes.len()).collect();
    sizes.sort();
    println!("datagrams emitted by the node: {}, largest {:?}", sizes.len(), sizes.last());
    let mut code = 0;
    for (tag, sig, what) in &f.items {
        if *tag == "C17" {
            println!("VIOLATION {sig}: {what}");
            code = 1;
        }
    }
    code
}

/// A searching node among responders that hand out tokens of `token_len` bytes (their own replies
/// stay below 1500 bytes): the node's announce_peer queries must fit 1500 bytes too.
pub fn long_token_run(token_len: usize, v6: bool, port: Option<u16>) -> (sim::RunResult, usize) {
    use crate::sim::peers::Responder;
    let mut sc = sim::Scenario::new("long-token");
    let saddr = super::c02::searcher_addr(v6);
    let ids: Vec<[u8; 20]> = (0..3u8).map(|i| super::c02::prefix_id(i, 3, 0x44)).collect();
    let universe: std::sync::Arc<Vec<([u8; 20], std::net::SocketAddr)>> = std::sync::Arc::new(ids.iter().enumerate().map(|(i, id)| (*id, super::c02::resp_addr(i, v6))).collect());
    let mut peers: Vec<Box<dyn sim::Peer>> = vec![];
    for (i, id) in ids.iter().enumerate() {
        let mut r = Responder::new(super::c02::resp_addr(i, v6), *id, universe.clone());
        r.token = vec![b'A' + i as u8; token_len];
        // no node lists: leaves the most room for the token inside a reply of <= 1500 bytes
        r.node_list = crate::sim::peers::NodeList::None;
        r.find_node_list = Some(crate::sim::peers::NodeList::Closest8);
        peers.push(Box::new(r));
    }
    sc.nodes.push(sim::NodeSpec { addr: saddr, id: Some(btdht::InfoHash::from([0xf7u8; 20])), read_only: true, announce_port: port, contacts: vec![super::c02::resp_addr(0, v6)], routers: vec![], start_ms: 0 });
    sc.actions.push((When::At(5_000), Action::Search { node: 0, info_hash: btdht::InfoHash::from([0x21u8; 20]), announce: true, tag: "search".into() }));
    sc.stop_after = vec!["search".into()];
    sc.linger_ms = 100;
    sc.horizon_ms = 60_000;
    let res = sim::run(&sc, peers, &mut sim::DefaultChooser);
    let max = res.wire.iter().filter(|d| d.from_real).map(|d| d.bytes.len()).max().unwrap_or(0);
    (res, max)
}

pub fn run(tier: Tier) -> Report {
    let mut rep = Report::new("C17", "model_checking", tier);
    // queries: announce_peer echoes the token the remote node handed out
    {
        let lens: Vec<usize> = tier.pick(vec![0, 20, 255, 1000, 1300, 1350, 1380, 1400, 1420, 1430], (0..=1440).step_by(10).collect());
        let mut worst = 0usize;
        for &l in &lens {
            for (v6, port) in [(false, None), (true, Some(65535u16))] {
                let (res, max) = long_token_run(l, v6, port);
                rep.add("transitions", res.wire.len() as u64);
                rep.add("long_token_runs", 1);
                worst = worst.max(max);
                if max > 1500 {
                    rep.violation(
                        "oversized-datagram kind=announce_peer-echoing-a-long-token",
                        format!("a responder hands out a {l}-byte token (its own reply fits 1500 bytes); the node's announce_peer to it is {max} bytes"),
                        json!({"engine":"E1","check":"C17","long_token":l,"v6":v6}),
                    );
                }
            }
        }
        rep.set("largest_query_with_remote_token", worst as u64);
    }
    let seed = 1 + seed();
    let ks: Vec<usize> = match tier {
        Tier::Quick => {
            let mut v: Vec<usize> = (0..=8).collect();
            v.extend(9..=70);
            v.extend(130..=190);
            v.extend([100, 200, 250, 300, 400, 499, 500]);
            v
        }
        Tier::Thorough => (0..=500).collect(),
    };
    let mut cfgs = vec![];
    for &k in &ks {
        for v6_peers in [false, true] {
            for node_v6 in [false, true] {
                for table in [0usize, 9] {
                    if tier == Tier::Quick && node_v6 != v6_peers && k > 8 && k % 50 != 0 {
                        continue;
                    }
                    cfgs.push(Cfg { v6_peers, node_v6, k, table, all_tid_lengths: false });
                }
            }
        }
    }
    // every transaction id length 0..=32 on stores that need the cap
    for k in tier.pick(vec![150usize, 200, 500], vec![60, 100, 146, 150, 177, 200, 300, 499, 500]) {
        for v6 in [false, true] {
            for table in [0usize, 9] {
                cfgs.push(Cfg { v6_peers: v6, node_v6: v6, k, table, all_tid_lengths: true });
            }
        }
    }
    let outs = par_map(&cfgs, |_, cfg| {
        let (res, f, _) = run_one(cfg, seed);
        (sim::trace_hash(&res, ""), res.wire.len() as u64, f)
    });
    let mut distinct = std::collections::HashSet::new();
    let mut max = 0usize;
    for (cfg, (h, wire, f)) in cfgs.iter().zip(outs.iter()) {
        distinct.insert(*h);
        rep.add("transitions", *wire);
        max = max.max(f.max_datagram);
        for (tag, sig, what) in &f.items {
            if *tag == "C17" {
                let fam = if cfg.v6_peers { "v6" } else { "v4" };
                rep.violation(format!("{sig} family={fam}"), format!("{what} [{:?}]", cfg), json!({"engine":"E1","check":"C17","cfg":cfg_json(cfg),"rng_seed":seed}));
            }
        }
    }
    // universal part: the size monitor over the quick scenario sets of other properties
    let (uruns, uwire, umax, uviol) = super::universal::size_monitor(tier);
    rep.add("transitions", uwire);
    rep.set("universal_monitor_runs", uruns);
    max = max.max(umax);
    for (sig, what, replay) in uviol {
        rep.violation(sig, what, replay);
    }
    rep.set("largest_datagram_emitted", max as u64);
    rep.set("dedicated_configurations", cfgs.len() as u64);
    rep.set("evaluations", cfgs.len() as u64 + uruns);
    rep.set("states", distinct.len() as u64);
    rep.set("distinct_nontrivial", distinct.len() as u64);
    rep.set("traces_validated_against_impl", cfgs.len() as u64 + uruns);
    rep.sample(json!({"cfg":cfg_json(&cfgs[cfgs.len() / 2])}));
    rep.set("rule", "Single real node, k peers announced on one info-hash (k over the stated set, thorough: every k in 0..=500), v4 and v6 peers, v4 and v6 node, empty / 9-contact routing table; then get_peers from both families x want {absent,n4,n6,both} x tid length {0,8,32}, plus find_node / ping / refused and accepted announce with 32-byte tids. Oracle on every datagram the node emits in these and in the other properties' scenario sets: length <= 1500 and decodable by Message::decode.");
    rep
}

//! C15 — bootstrap completes when it can, tells every waiter, never kills the node (E1).

use crate::common::*;
use crate::sim::explore::{self, PrefixChooser, RunOutcome};
use crate::sim::peers::{Mode, Responder};
use crate::sim::{self, Action, ApiKind, Fate, NodeSpec, Peer, RunResult, Scenario, When};
use btdht::InfoHash;
use serde_json::{json, Value};
use std::net::SocketAddr;
use std::sync::Arc;

#[derive(Clone, Debug, PartialEq)]
pub enum Beh {
    Responsive,
    Silent,
    ErrorReply,
    Garbage,
    Echo,
    /// unreachable until this instant (ms), responsive afterwards
    ResponsiveFrom(u64),
    /// up for `a` ms, down for `b` ms, repeating
    Flapping(u64, u64),
    /// responsive, except unreachable during [a, b)
    DownBetween(u64, u64),
    /// every send_to towards it fails (wrong address family, port 0, no route)
    Unsendable,
}

#[derive(Clone, Debug)]
pub struct Cfg {
    pub v6: bool,
    pub read_only: bool,
    /// behaviour of each contact of the pool
    pub contacts: Vec<Beh>,
    /// indices given to the builder as plain nodes / as routers (may overlap)
    pub nodes: Vec<usize>,
    pub routers: Vec<usize>,
    /// router strings that resolve to nothing usable (wrong family, no port, garbage)
    pub bad_routers: Vec<String>,
    /// contact 0 names one (silent) address under two different node ids, and itself under a second id
    pub twin_ids: bool,
    /// waiters (call instant, cancelled after ms) whose future is dropped while still pending
    pub cancelled_waiters: Vec<(u64, u64)>,
    /// instants at which bootstrapped() is called
    pub waiters: Vec<u64>,
    pub horizon_ms: u64,
    pub latency: u64,
    /// every send_to of the node completes only after this many ms (the datagram leaves at once)
    pub send_delay_ms: u64,
    /// get_state() is called every millisecond in [from, to) (an application polling the state)
    pub poll_state: Option<(u64, u64)>,
    pub rng_seed: u64,
}

pub fn node_addr(v6: bool) -> SocketAddr {
    if v6 { "[fd00::1]:6881".parse().unwrap() } else { "10.0.0.1:6881".parse().unwrap() }
}
pub fn contact_addr(i: usize, v6: bool) -> SocketAddr {
    if v6 { format!("[fd00::2:{:x}]:6881", i + 1).parse().unwrap() } else { format!("10.0.2.{}:6881", i + 1).parse().unwrap() }
}
fn contact_id(i: usize) -> [u8; 20] {
    let mut b = SplitMix(0xc15 + i as u64).bytes20();
    b[0] = (i as u8).wrapping_mul(37);
    b
}
fn node_id() -> InfoHash {
    let mut b = SplitMix(0xc15_0000).bytes20();
    b[0] = 0xaa;
    InfoHash::from(b)
}

pub fn build(cfg: &Cfg) -> (Scenario, Vec<Box<dyn Peer>>) {
    let mut sc = Scenario::new(&format!("bootstrap {:?}", cfg));
    sc.rng_seed = cfg.rng_seed;
    let universe: Arc<Vec<([u8; 20], SocketAddr)>> = Arc::new((0..cfg.contacts.len()).map(|i| (contact_id(i), contact_addr(i, cfg.v6))).collect());
    let mut peers: Vec<Box<dyn Peer>> = vec![];
    for (i, b) in cfg.contacts.iter().enumerate() {
        let mut r = Responder::new(contact_addr(i, cfg.v6), contact_id(i), universe.clone());
        match b {
            Beh::Responsive => {}
            Beh::Silent => r.mode = Mode::Silent,
            Beh::ErrorReply => r.mode = Mode::ErrorReply,
            Beh::Garbage => r.mode = Mode::Garbage,
            Beh::Echo => r.mode = Mode::Echo,
            Beh::Unsendable => {
                r.mode = Mode::Silent;
                sc.fail_dst.push(contact_addr(i, cfg.v6));
            }
            Beh::ResponsiveFrom(t) => r.up = vec![(*t, u64::MAX)],
            Beh::DownBetween(a, b) => r.up = vec![(0, *a), (*b, u64::MAX)],
            Beh::Flapping(a, d) => {
                let mut up = vec![];
                let mut t = 0;
                while t < cfg.horizon_ms {
                    up.push((t, t + a));
                    t += a + d;
                }
                r.up = up;
            }
        }
        if cfg.twin_ids && i == 0 {
            let mute: SocketAddr = if cfg.v6 { "[fd00::2:ff]:6881".parse().unwrap() } else { "10.0.2.250:6881".parse().unwrap() };
            let mut a = contact_id(200);
            let mut b = contact_id(201);
            // both in the same bucket as seen from the node
            a[0] = 0x55;
            b[0] = 0x56;
            let mut c = contact_id(0);
            c[19] ^= 0xff;
            r.node_list = crate::sim::peers::NodeList::ClosestPlus(vec![(a, mute), (b, mute), (c, contact_addr(0, cfg.v6))]);
        }
        peers.push(Box::new(r));
    }
    sc.nodes.push(NodeSpec {
        addr: node_addr(cfg.v6),
        id: Some(node_id()),
        read_only: cfg.read_only,
        announce_port: None,
        contacts: cfg.nodes.iter().map(|i| contact_addr(*i, cfg.v6)).collect(),
        routers: cfg.routers.iter().map(|i| contact_addr(*i, cfg.v6).to_string()).chain(cfg.bad_routers.iter().cloned()).collect(),
        start_ms: 0,
    });
    for (k, t) in cfg.waiters.iter().enumerate() {
        sc.actions.push((When::At(*t), Action::Bootstrapped { node: 0, tag: format!("w{k}") }));
    }
    for (k, (t, after)) in cfg.cancelled_waiters.iter().enumerate() {
        sc.actions.push((When::At(*t), Action::BootstrappedCancel { node: 0, tag: format!("cw{k}"), cancel_after_ms: *after }));
    }
    sc.actions.push((When::At(cfg.horizon_ms - 20), Action::GetState { node: 0, tag: "final-state".into() }));
    sc.actions.push((When::At(cfg.horizon_ms - 20), Action::LocalAddr { node: 0, tag: "final-addr".into() }));
    sc.actions.push((When::At(cfg.horizon_ms - 20), Action::LoadContacts { node: 0, tag: "final-contacts".into() }));
    sc.actions.push((When::At(cfg.horizon_ms - 20), Action::Search { node: 0, info_hash: InfoHash::sha1(b"c15"), announce: false, tag: "final-search".into() }));
    if let Some((from, to)) = cfg.poll_state {
        for t in from..to {
            // two pollers, like two tasks of the application, each asking 25 times back to back
            sc.actions.push((When::At(t), Action::GetStateBurst { node: 0, n: 25 }));
            sc.actions.push((When::At(t), Action::GetStateBurst { node: 0, n: 25 }));
        }
    }
    sc.send_delay_ms = cfg.send_delay_ms;
    sc.sample = vec![(0, 10_000, 5_000)];
    sc.horizon_ms = cfg.horizon_ms;
    let lat = cfg.latency;
    sc.link_latency = Arc::new(move |_, _| lat);
    let na = node_addr(cfg.v6);
    sc.eligible = Some(Arc::new(move |d, p| (d.src == na || d.dst == na) && p.valid && d.sent_ms < 20_000));
    (sc, peers)
}

/// First instant from which some contact that the node was given answers continuously.
fn continuously_responsive_from(cfg: &Cfg) -> Option<u64> {
    cfg.nodes
        .iter()
        .chain(cfg.routers.iter())
        .filter_map(|i| match &cfg.contacts[*i] {
            Beh::Responsive => Some(0),
            Beh::ResponsiveFrom(t) => Some(*t),
            Beh::DownBetween(_, b) => Some(*b),
            _ => None,
        })
        .min()
}

pub fn judge(cfg: &Cfg, res: &RunResult) -> Vec<(String, String)> {
    let mut v = vec![];
    let node = node_addr(cfg.v6);
    let overlap = cfg.nodes.iter().any(|n| cfg.routers.contains(n));
    let class = if overlap { "contact-both-node-and-router" } else if cfg.nodes.is_empty() && cfg.routers.is_empty() && cfg.bad_routers.is_empty() { "no-contacts" } else { "plain" };
    // (a) alive throughout
    for e in &res.api {
        let dead = match &e.kind {
            ApiKind::StateNone | ApiKind::ContactsErr => true,
            ApiKind::State { running, .. } => !*running,
            ApiKind::LocalAddr(ok) => !*ok,
            ApiKind::Resolved(ok) => !*ok,
            _ => false,
        };
        if dead {
            v.push((format!("node-dead config={class}"), format!("API call {} answered {:?} at {} ms: the node is gone (panics: {:?})", e.tag, e.kind, e.t_ms, res.panics.first())));
            break;
        }
    }
    for tag in ["final-state", "final-addr", "final-contacts"] {
        if res.finished(tag).is_none() && res.started(tag).is_some() {
            v.push((format!("api-call-never-answers config={class}"), format!("{tag} did not complete")));
        }
    }
    if !res.panics.is_empty() && v.is_empty() {
        v.push((format!("node-task-panicked config={class}"), res.panics[0].clone()));
    }
    let no_contacts = cfg.nodes.is_empty() && cfg.routers.is_empty() && cfg.bad_routers.is_empty();
    let first_response = res
        .wire
        .iter()
        .filter(|d| d.dst == node && !d.delivered_ms.is_empty())
        .filter(|d| sim::krpc::parse(&d.bytes).y == 'r')
        .map(|d| d.delivered_ms[0])
        .min();
    let t_star = continuously_responsive_from(cfg);
    for (k, call) in cfg.waiters.iter().enumerate() {
        let tag = format!("w{k}");
        let r = res.resolved(&tag);
        if no_contacts {
            match r {
                Some((t, true)) if t == *call => {}
                other => v.push(("no-contacts-not-bootstrapped-immediately".to_string(), format!("waiter called at {call} ms: {:?}", other))),
            }
            continue;
        }
        if let Some((t, true)) = r {
            match first_response {
                Some(fr) if fr <= t => {}
                _ => v.push(("bootstrapped-before-any-contact-answered".to_string(), format!("waiter {k} resolved at {t} ms, first response delivered at {:?}", first_response))),
            }
        }
        if cfg.routers.is_empty() {
            if let Some(ts) = t_star {
                let deadline = (*call).max(ts) + 660_000;
                if deadline + 100 < cfg.horizon_ms {
                    match r {
                        Some((t, true)) if t <= deadline => {}
                        other => v.push((
                            "waiter-not-told-within-11-minutes".to_string(),
                            format!("waiter {k} (called at {call} ms; a contact answers continuously from {ts} ms) -> {:?}; deadline {deadline} ms", other),
                        )),
                    }
                }
            }
        }
    }
    if no_contacts && res.wire.iter().any(|d| d.src == node) {
        v.push(("no-contacts-node-sends-datagrams".to_string(), format!("{} datagrams", res.wire.iter().filter(|d| d.src == node).count())));
    }
    v
}

fn beh_json(b: &Beh) -> Value {
    match b {
        Beh::ResponsiveFrom(t) => json!({"from":t}),
        Beh::Flapping(a, d) => json!({"flap":[a,d]}),
        Beh::DownBetween(a, b) => json!({"down":[a,b]}),
        Beh::Unsendable => json!("Unsendable"),
        other => json!(format!("{:?}", other)),
    }
}
fn beh_parse(v: &Value) -> Beh {
    if let Some(t) = v.get("from") {
        return Beh::ResponsiveFrom(t.as_u64().unwrap());
    }
    if let Some(f) = v.get("down") {
        return Beh::DownBetween(f[0].as_u64().unwrap(), f[1].as_u64().unwrap());
    }
    if let Some(f) = v.get("flap") {
        return Beh::Flapping(f[0].as_u64().unwrap(), f[1].as_u64().unwrap());
    }
    match v.as_str().unwrap_or("") {
        "Silent" => Beh::Silent,
        "ErrorReply" => Beh::ErrorReply,
        "Garbage" => Beh::Garbage,
        "Echo" => Beh::Echo,
        "Unsendable" => Beh::Unsendable,
        _ => Beh::Responsive,
    }
}
pub fn cfg_json(c: &Cfg) -> Value {
    json!({"v6":c.v6,"read_only":c.read_only,"contacts":c.contacts.iter().map(beh_json).collect::<Vec<_>>(),"nodes":c.nodes,"routers":c.routers,"bad_routers":c.bad_routers,"twin_ids":c.twin_ids,"cancelled_waiters":c.cancelled_waiters.iter().map(|(a,b)| json!([a,b])).collect::<Vec<_>>(),"waiters":c.waiters,"horizon_ms":c.horizon_ms,"latency":c.latency,"send_delay_ms":c.send_delay_ms,"poll_state":c.poll_state.map(|(a,b)| json!([a,b])),"rng_seed":c.rng_seed})
}
fn cfg_parse(v: &Value) -> Cfg {
    let us = |k: &str| -> Vec<usize> { v[k].as_array().map(|a| a.iter().map(|x| x.as_u64().unwrap() as usize).collect()).unwrap_or_default() };
    Cfg {
        v6: v["v6"].as_bool().unwrap_or(false),
        read_only: v["read_only"].as_bool().unwrap_or(true),
        contacts: v["contacts"].as_array().map(|a| a.iter().map(beh_parse).collect()).unwrap_or_default(),
        nodes: us("nodes"),
        routers: us("routers"),
        twin_ids: v["twin_ids"].as_bool().unwrap_or(false),
        cancelled_waiters: v["cancelled_waiters"].as_array().map(|a| a.iter().map(|x| (x[0].as_u64().unwrap(), x[1].as_u64().unwrap())).collect()).unwrap_or_default(),
        bad_routers: v["bad_routers"].as_array().map(|a| a.iter().map(|x| x.as_str().unwrap().to_string()).collect()).unwrap_or_default(),
        waiters: v["waiters"].as_array().map(|a| a.iter().map(|x| x.as_u64().unwrap()).collect()).unwrap_or_default(),
        horizon_ms: v["horizon_ms"].as_u64().unwrap_or(60_000),
        latency: v["latency"].as_u64().unwrap_or(20),
        send_delay_ms: v["send_delay_ms"].as_u64().unwrap_or(0),
        poll_state: v["poll_state"].as_array().map(|a| (a[0].as_u64().unwrap_or(0), a[1].as_u64().unwrap_or(0))),
        rng_seed: v["rng_seed"].as_u64().unwrap_or(1),
    }
}

fn fates() -> Vec<Option<Fate>> {
    vec![None, Some(Fate::Deliver(1)), Some(Fate::Deliver(480)), Some(Fate::Deliver(2_600)), Some(Fate::Drop), Some(Fate::Duplicate(20, 20)), Some(Fate::Duplicate(20, 300))]
}

pub fn replay(v: &Value) -> i32 {
    let cfg = cfg_parse(&v["cfg"]);
    let prefix: Vec<usize> = v["choices"].as_array().map(|a| a.iter().map(|x| x.as_u64().unwrap() as usize).collect()).unwrap_or_default();
    let (mut sc, peers) = build(&cfg);
    if !prefix.is_empty() {
        sc.fates = fates();
    }
    let mut ch = PrefixChooser { prefix: &prefix, pos: 0, out_of_range: false };
    let res = sim::run(&sc, peers, &mut ch);
    for e in res.api.iter().filter(|e| !e.tag.starts_with("sample") && !e.tag.starts_with("state")) {
        println!("  api {:>8} ms {} {:?}", e.t_ms, e.tag, e.kind);
    }
    println!("panics: {:?}", res.panics);
    let v = judge(&cfg, &res);
    for (s, w) in &v {
        println!("VIOLATION {s}: {w}");
    }
    if v.is_empty() { 0 } else { 1 }
}

pub fn configs(tier: Tier, seed: u64) -> Vec<Cfg> {
    let mut out = vec![];
    let base = |contacts: Vec<Beh>, nodes: Vec<usize>, routers: Vec<usize>, waiters: Vec<u64>, horizon: u64| Cfg { v6: false, read_only: true, contacts, nodes, routers, bad_routers: vec![], twin_ids: false, cancelled_waiters: vec![], waiters, horizon_ms: horizon, latency: 20, send_delay_ms: 0, poll_state: None, rng_seed: seed };
    // no contacts at all
    for ro in [true, false] {
        for v6 in [false, true] {
            let mut c = base(vec![], vec![], vec![], vec![0, 1, 500, 60_000], 70_000);
            c.read_only = ro;
            c.v6 = v6;
            out.push(c);
        }
    }
    // contact counts x uniform behaviours, plain nodes
    let counts: Vec<usize> = tier.pick(vec![1, 3, 12], vec![1, 3, 12, 36]);
    for &n in &counts {
        for beh in [Beh::Responsive, Beh::Silent, Beh::ErrorReply, Beh::Garbage, Beh::Echo, Beh::ResponsiveFrom(3_000), Beh::ResponsiveFrom(70_000)] {
            for ro in [true, false] {
                if !ro && n > 3 {
                    continue;
                }
                let late = matches!(beh, Beh::ResponsiveFrom(t) if t > 10_000);
                let horizon = if late { 70_000 + 700_000 } else if beh == Beh::Responsive || matches!(beh, Beh::ResponsiveFrom(_)) { 120_000 } else { 300_000 };
                let mut c = base(vec![beh.clone(); n], (0..n).collect(), vec![], vec![0, 1, 2_000, 30_000], horizon);
                c.read_only = ro;
                out.push(c);
            }
        }
        // one good contact among bad ones
        for bad in [Beh::Silent, Beh::ErrorReply, Beh::Echo] {
            if n >= 3 {
                let mut bs = vec![bad.clone(); n];
                bs[n - 1] = Beh::Responsive;
                out.push(base(bs, (0..n).collect(), vec![], vec![0, 700, 5_000], 120_000));
            }
        }
    }
    // routers and nodes: disjoint, overlapping, routers only (v4 and v6)
    for v6 in [false, true] {
        for (nodes, routers) in [
            (vec![0usize, 1], vec![2usize]),
            (vec![0], vec![0]),
            (vec![0, 1, 2], vec![1]),
            (vec![0, 1], vec![0, 1]),
            (vec![], vec![0, 1]),
            (vec![1], vec![0, 2]),
        ] {
            for beh in [Beh::Responsive, Beh::Silent] {
                let mut c = base(vec![beh.clone(); 3], nodes.clone(), routers.clone(), vec![0, 3_000], 60_000);
                c.v6 = v6;
                out.push(c);
            }
        }
    }
    // outages before the network comes up
    let outages: Vec<u64> = tier.pick(vec![3_000, 70_000, 1_200_000], vec![3_000, 70_000, 1_200_000, 7_200_000]);
    for t in outages {
        for n in [1usize, 3] {
            out.push(base(vec![Beh::ResponsiveFrom(t); n], (0..n).collect(), vec![], vec![0, t / 2, t.saturating_sub(10), t + 10, t + 30_000], t + 700_000));
        }
    }
    // waiters that arrive while the node has dropped out of the bootstrapped state: during the
    // periodic re-bootstrap of a small network (every 250 ms across two cycles) and during an outage
    // that follows a successful bootstrap
    {
        let mut c = base(vec![Beh::Responsive; 2], vec![0, 1], vec![], (0..40).map(|k| 4_900 + 250 * k).collect(), 120_000);
        c.latency = 200;
        out.push(c);
        for (a, b) in [(10_000u64, 130_000u64), (8_000, 1_500_000)] {
            out.push(base(vec![Beh::DownBetween(a, b)], vec![0], vec![], vec![0, a + 20_000, a + 60_000, b - 1_000, b + 5_000], b + 700_000));
            out.push(base(vec![Beh::DownBetween(a, b); 3], vec![0, 1, 2], vec![], vec![a + 30_000, (a + b) / 2, b + 1], b + 700_000));
        }
    }
    // routers that resolve to nothing usable: the node has contacts it cannot reach, so it is not bootstrapped
    for (v6, bad) in [(false, vec!["[::1]:6881".to_string()]), (false, vec!["10.0.2.9".to_string()]), (true, vec!["10.0.2.9:6881".to_string()]), (false, vec!["not a router".to_string(), "[fd00::7]:1".to_string()])] {
        let mut c = base(vec![], vec![], vec![], vec![0, 1_000, 60_000], 130_000);
        c.v6 = v6;
        c.bad_routers = bad;
        out.push(c);
    }
    // waiters that give up (their future is dropped) while others keep waiting, in every order
    for (cancels, waiters) in [
        (vec![(100u64, 50u64)], vec![0u64, 200, 300, 400]),
        (vec![(0, 150), (100, 30)], vec![50, 120, 200, 260, 1_000]),
        (vec![(10, 5), (20, 5), (30, 500)], vec![0, 15, 25, 40, 600]),
        (vec![(300, 100)], vec![100, 200, 450, 460, 470]),
    ] {
        let mut c = base(vec![Beh::ResponsiveFrom(5_000)], vec![0], vec![], waiters, 60_000);
        c.cancelled_waiters = cancels;
        out.push(c);
    }
    // a contact whose answers list one address under two node ids (and itself under a second id)
    for v6 in [false, true] {
        for n in [1usize, 3] {
            let mut c = base(vec![Beh::Responsive; n], (0..n).collect(), vec![], vec![0, 10_000], 60_000);
            c.twin_ids = true;
            c.v6 = v6;
            out.push(c);
        }
    }
    // contacts that cannot even be sent to (an IPv4 node given IPv6 addresses, port 0), before / among answering ones
    for (bad, good) in [(14usize, 1usize), (3, 2), (1, 1), (30, 3)] {
        for seed_shift in 0..tier.pick(3u64, 8) {
            let mut behs = vec![Beh::Unsendable; bad];
            behs.extend(vec![Beh::Responsive; good]);
            let n = behs.len();
            let mut c = base(behs, (0..n).collect(), vec![], vec![0, 3_000], 700_000);
            // the iteration order of the contact set depends on the process-wide hasher state; several runs
            c.rng_seed += seed_shift;
            out.push(c);
        }
    }
    // an application polling get_state() while the bootstrap completes, on a node that ends with >= 10 good nodes
    // (the state stays Bootstrapped: nothing will wake a missed waiter later)
    for n in [12usize, 16] {
        for lat in [1u64, 20] {
            let mut c = base(vec![Beh::Responsive; n], (0..n).collect(), vec![], vec![0, 1, 50], 700_000);
            c.latency = lat;
            c.poll_state = Some((0, 1_500));
            out.push(c);
        }
    }
    // more than 8 contacts of which all but one answer at once with an error (or garbage)
    for bad in [Beh::ErrorReply, Beh::Garbage] {
        for (n, good_at) in [(20usize, 19usize), (20, 0), (12, 6), (9, 8)] {
            let mut behs = vec![bad.clone(); n];
            behs[good_at] = Beh::Responsive;
            out.push(base(behs, (0..n).collect(), vec![], vec![0, 1_000], 700_000));
        }
    }
    // send_to that completes late: the answer can be in before the call returns
    for delay in [1u64, 50, 300] {
        for n in [1usize, 3] {
            let mut c = base(vec![Beh::Responsive; n], (0..n).collect(), vec![], vec![0, 2_000], 700_000);
            c.send_delay_ms = delay;
            c.latency = 1;
            out.push(c);
        }
    }
    // flapping contacts (no deadline asserted; liveness only)
    out.push(base(vec![Beh::Flapping(10_000, 120_000); 2], vec![0, 1], vec![], vec![0, 15_000, 200_000], tier.pick(600_000, 3_600_000)));
    out
}

pub fn run(tier: Tier) -> Report {
    let mut rep = Report::new("C15", "model_checking", tier);
    let seed = 1 + seed();
    let cfgs = configs(tier, seed);
    let outs = par_map(&cfgs, |_, cfg| {
        let (sc, peers) = build(cfg);
        let res = sim::run(&sc, peers, &mut sim::DefaultChooser);
        let resolved = cfg.waiters.iter().enumerate().filter(|(k, _)| res.resolved(&format!("w{k}")).map_or(false, |r| r.1)).count();
        (sim::trace_hash(&res, ""), res.wire.len() as u64, judge(cfg, &res), resolved)
    });
    let mut distinct = std::collections::HashSet::new();
    for (cfg, (h, wire, viol, resolved)) in cfgs.iter().zip(outs.iter()) {
        distinct.insert(*h);
        rep.add("transitions", *wire);
        rep.add("waiters_resolved_true", *resolved as u64);
        rep.add("waiters_total", cfg.waiters.len() as u64);
        for (sig, what) in viol {
            rep.violation(sig.clone(), format!("{what} [{:?}]", cfg), json!({"engine":"E1","check":"C15","cfg":cfg_json(cfg),"choices":[]}));
        }
    }
    rep.set("layerA_configurations", cfgs.len() as u64);
    let mut runs = cfgs.len() as u64;
    // deviations on bootstrap datagrams (first 20 s)
    let fs = fates();
    let mut levels = vec![];
    let picks: Vec<Cfg> = vec![
        Cfg { v6: false, read_only: true, contacts: vec![Beh::Responsive], nodes: vec![0], routers: vec![], bad_routers: vec![], twin_ids: false, cancelled_waiters: vec![], waiters: vec![0, 2_000], horizon_ms: 700_000, latency: 20, send_delay_ms: 0, poll_state: None, rng_seed: seed },
        Cfg { v6: false, read_only: true, contacts: vec![Beh::Responsive, Beh::Silent, Beh::Responsive], nodes: vec![0, 1, 2], routers: vec![], bad_routers: vec![], twin_ids: false, cancelled_waiters: vec![], waiters: vec![0], horizon_ms: 700_000, latency: 20, send_delay_ms: 0, poll_state: None, rng_seed: seed },
    ];
    for cfg in picks.iter().take(tier.pick(2, 2)) {
        let run_one = |prefix: &[usize]| -> RunOutcome {
            let (mut sc, peers) = build(cfg);
            sc.fates = fs.clone();
            let mut ch = PrefixChooser { prefix, pos: 0, out_of_range: false };
            let res = sim::run(&sc, peers, &mut ch);
            RunOutcome { outcome_hash: sim::trace_hash(&res, ""), wire_events: res.wire.len() as u64, violations: judge(cfg, &res), out_of_range: ch.out_of_range, choices: res.choices }
        };
        let s = explore::explore(1, tier.pick(2_000, 50_000), &run_one);
        runs += s.runs;
        rep.add("transitions", s.wire_events);
        rep.add("choice_points", s.choice_points);
        rep.add("layerB_distinct_outcomes", s.distinct_outcomes);
        levels.push(json!({"cfg":cfg_json(cfg),"bound_completed":s.completed_bound,"runs":s.runs,"distinct_outcomes":s.distinct_outcomes,"capped":s.capped}));
        for (sig, what, choices) in s.violations {
            rep.violation(format!("deviation {sig}"), format!("{what} [{:?}]", cfg), json!({"engine":"E1","check":"C15","cfg":cfg_json(cfg),"choices":choices}));
        }
    }
    rep.set("layerB_explorations", json!(levels));
    rep.set("evaluations", runs);
    let d = distinct.len() as u64 + rep.get("layerB_distinct_outcomes");
    rep.set("states", d);
    rep.set("distinct_nontrivial", d);
    rep.set("traces_validated_against_impl", runs);
    rep.sample(json!({"cfg":cfg_json(&cfgs[8])}));
    rep.sample(json!({"cfg":cfg_json(&cfgs[cfgs.len() - 2])}));
    rep.set("rule", "One real node per run; builder configurations: 0/1/3/12(/36) contacts x behaviour {responsive, silent, KRPC error, garbage, echo, responsive from T} x read-only, router/node splits incl. overlap and routers only (v4/v6), outages of 3 s .. 20 min (thorough 2 h), flapping; 3-5 bootstrapped() callers at instants before / during / after completion; API liveness sampled every 10 virtual seconds and at the end. Layer B: every single deviation {1, 480, 2600 ms, drop} on the node's datagrams of the first 20 s.");
    rep.assume("'within about 11 minutes' is asserted as 660 s after max(call, first instant from which a contact answers continuously)");
    rep
}

//! C03 — searches never fabricate peers, tokens or announce targets on hostile networks
//! (E1, fault enumeration: hostile fates + an adversary injecting forged responses).

use crate::common::*;
use crate::sim::explore::{self, PrefixChooser, RunOutcome};
use crate::sim::peers::Responder;
use crate::sim::{self, krpc, Action, Datagram, Fate, NodeSpec, Peer, RunResult, Scenario, When};
use btdht::InfoHash;
use serde_json::{json, Value};
use std::collections::{BTreeMap, BTreeSet};
use std::net::SocketAddr;
use std::sync::Arc;

const T_SEARCH: u64 = 10_000;

#[derive(Clone, Debug)]
pub struct Cfg {
    pub responders: usize,
    /// (start offset after T_SEARCH, hash index, announce)
    pub searches: Vec<(u64, u8, bool)>,
    /// honest responders also list their own id (and a neighbour's id) at addresses that never speak
    pub dup_ids: bool,
    /// 0 none; 1 responder 1 answers get_peers without a token; 2 responder 1 appends a 7-byte entry to its
    /// values; 3 responder 0 gives no token and responder 2 appends a 19-byte entry; 4 tokens of 129 / 300 / 128 bytes
    pub quirk: u8,
    pub rng_seed: u64,
}

fn s_addr() -> SocketAddr {
    "10.0.0.3:6881".parse().unwrap()
}
fn s_id() -> [u8; 20] {
    let mut b = [0x3cu8; 20];
    b[0] = 0x93;
    b
}
fn r_addr(i: usize) -> SocketAddr {
    format!("10.0.3.{}:6881", i + 1).parse().unwrap()
}
fn r_id(i: usize) -> [u8; 20] {
    let mut b = SplitMix(0xc03 + i as u64).bytes20();
    b[0] = (i as u8) << 5 | 0x0a;
    b
}
fn adversary() -> SocketAddr {
    "10.66.6.6:666".parse().unwrap()
}
fn hash(k: u8) -> [u8; 20] {
    let mut b = [0x21u8; 20];
    b[0] = 0x20 + k * 0x40;
    b[19] = k;
    b
}
fn poison(k: usize) -> SocketAddr {
    format!("192.168.66.{}:{}", k + 1, 6600 + k).parse().unwrap()
}
fn is_poison(a: &SocketAddr) -> bool {
    matches!(a, SocketAddr::V4(v) if v.ip().octets()[..3] == [192, 168, 66])
}

pub fn build(cfg: &Cfg) -> (Scenario, Vec<Box<dyn Peer>>) {
    let mut sc = Scenario::new("hostile-search");
    sc.rng_seed = cfg.rng_seed;
    let universe: Arc<Vec<([u8; 20], SocketAddr)>> = Arc::new((0..cfg.responders).map(|i| (r_id(i), r_addr(i))).collect());
    let mut peers: Vec<Box<dyn Peer>> = vec![];
    for i in 0..cfg.responders {
        let mut r = Responder::new(r_addr(i), r_id(i), universe.clone());
        r.values = vec![format!("172.30.0.{}:{}", i + 1, 3000 + i).parse().unwrap()];
        r.rotate_tokens = cfg.dup_ids;
        match (cfg.quirk, i) {
            (1, 1) | (3, 0) => r.no_token = true,
            (2, 1) => r.odd_value = Some(7),
            (3, 2) => r.odd_value = Some(19),
            (4, 0) => r.token = vec![b'L'; 129],
            (4, 1) => r.token = vec![b'M'; 300],
            (4, 2) => r.token = vec![b'N'; 128],
            _ => {}
        }
        if cfg.dup_ids && i < 2 {
            let mute: SocketAddr = format!("10.0.33.{}:6881", i + 1).parse().unwrap();
            r.node_list = crate::sim::peers::NodeList::ClosestPlus(vec![(r_id(i), mute), (r_id((i + 1) % cfg.responders), mute)]);
        }
        peers.push(Box::new(r));
    }
    sc.nodes.push(NodeSpec { addr: s_addr(), id: Some(InfoHash::from(s_id())), read_only: true, announce_port: None, contacts: (0..cfg.responders).map(r_addr).collect(), routers: vec![], start_ms: 0 });
    let mut tags = vec![];
    for (k, (off, h, ann)) in cfg.searches.iter().enumerate() {
        let tag = format!("s{k}");
        sc.actions.push((When::At(T_SEARCH + off), Action::Search { node: 0, info_hash: InfoHash::from(hash(*h)), announce: *ann, tag: tag.clone() }));
        tags.push(tag);
    }
    sc.stop_after = tags;
    sc.linger_ms = 2_000;
    sc.horizon_ms = T_SEARCH + 120_000;
    sc.link_latency = Arc::new(|_, _| 20);
    // choice points: every datagram to or from the searcher once the first search has started
    sc.eligible = Some(Arc::new(|d, p| d.sent_ms >= T_SEARCH && p.valid && (d.src == s_addr() || d.dst == s_addr())));
    (sc, peers)
}

pub const MENU_TIDS: usize = 9;
pub const MENU_BODIES: usize = 3;

fn body(kind: usize, tid: &[u8], k: usize, from_id: &[u8; 20]) -> Vec<u8> {
    match kind {
        // values = poison set + token
        0 => krpc::response(tid, from_id, Some(b"forged-token"), Some(&[poison(k), poison(k + 100)]), &[]),
        // node list with duplicate ids, the searcher's own id, unreachable addresses
        1 => krpc::response(
            tid,
            from_id,
            Some(b"forged-token"),
            None,
            &[([0x21; 20], "10.66.0.1:1".parse().unwrap()), ([0x21; 20], "10.66.0.2:2".parse().unwrap()), (s_id(), s_addr()), (hash(0), "0.0.0.0:0".parse().unwrap())],
        ),
        // values and nodes and a fresh id
        _ => krpc::response(tid, &[0x66; 20], Some(b"forged-token-2"), Some(&[poison(k + 50)]), &[([0x20; 20], adversary())]),
    }
}

/// The adversary's menu: index = tid class * MENU_BODIES + body kind.
fn injector() -> sim::Injector {
    Arc::new(|log: &[Datagram], now: u64, at: &Datagram, m: usize| {
        let tid_class = m / MENU_BODIES;
        let bkind = m % MENU_BODIES;
        let s = s_addr();
        // what the searcher has sent so far
        let mut get_peers: Vec<(Vec<u8>, SocketAddr, u64, [u8; 20])> = vec![];
        let mut table_tids: Vec<(Vec<u8>, SocketAddr)> = vec![];
        for d in log.iter().filter(|d| d.src == s) {
            let p = krpc::parse(&d.bytes);
            if p.is_query("get_peers") {
                get_peers.push((p.tid.clone(), d.dst, d.sent_ms, p.target.unwrap_or([0; 20])));
            } else if p.is_query("find_node") {
                table_tids.push((p.tid.clone(), d.dst));
            }
        }
        let answered: BTreeSet<Vec<u8>> = log.iter().filter(|d| d.dst == s && !d.delivered_ms.is_empty() && !d.injected).map(|d| krpc::parse(&d.bytes).tid).collect();
        // the search the datagram at this point belongs to (by info-hash), when it is a get_peers
        let at_p = krpc::parse(&at.bytes);
        let this_hash = if at_p.is_query("get_peers") { at_p.target } else { get_peers.last().map(|g| g.3) };
        let outstanding: Vec<&(Vec<u8>, SocketAddr, u64, [u8; 20])> = get_peers.iter().filter(|g| !answered.contains(&g.0) && now.saturating_sub(g.2) < 1_400).collect();
        let pick_out_this = outstanding.iter().rev().find(|g| Some(g.3) == this_hash).copied();
        let pick_out_other = outstanding.iter().rev().find(|g| Some(g.3) != this_hash).copied();
        let k = log.len() % 40;
        let (tid, from): (Vec<u8>, SocketAddr) = match tid_class {
            // exact outstanding tid, from a different source address
            0 => (pick_out_this?.0.clone(), adversary()),
            // outstanding tid of the other concurrent search, sent by the node this search asked
            1 => (pick_out_other?.0.clone(), pick_out_this.map(|g| g.1).unwrap_or(adversary())),
            // a tid seen on refresh or bootstrap traffic
            2 => {
                let t = table_tids.last()?;
                (t.0.clone(), t.1)
            }
            // an already answered tid (replay), from the node that answered
            3 => {
                let g = get_peers.iter().find(|g| answered.contains(&g.0))?;
                (g.0.clone(), g.1)
            }
            // an already timed-out tid
            4 => {
                let g = get_peers.iter().find(|g| !answered.contains(&g.0) && now.saturating_sub(g.2) > 1_600)?;
                (g.0.clone(), g.1)
            }
            // right 5-byte action prefix + a message id never issued
            5 => {
                let g = get_peers.last()?;
                let mut t = g.0.clone();
                if t.len() == 8 {
                    t[5] ^= 0x5a;
                    t[6] ^= 0xa5;
                    t[7] = t[7].wrapping_add(91);
                }
                if get_peers.iter().any(|x| x.0 == t) {
                    return None;
                }
                (t, g.1)
            }
            // random 8 bytes
            6 => (vec![0xd1, 0x5e, 0xa5, 0xe0, k as u8, 0x77, 0x01, 0x02], adversary()),
            // 7 and 9 bytes
            7 => {
                let g = get_peers.last()?;
                (g.0[..g.0.len().min(7)].to_vec(), g.1)
            }
            _ => {
                let g = get_peers.last()?;
                let mut t = g.0.clone();
                t.push(0);
                (t, g.1)
            }
        };
        Some((from, s, body(bkind, &tid, k, &[0x6a; 20])))
    })
}

/// Reference, from the wire alone: which responses were acceptable for which search.
pub fn judge(cfg: &Cfg, res: &RunResult) -> Vec<(String, String)> {
    let mut v = vec![];
    let s = s_addr();
    if !res.panics.is_empty() {
        v.push(("node-task-panicked".to_string(), res.panics[0].clone()));
    }
    for (k, (_, h, announce)) in cfg.searches.iter().enumerate() {
        let tag = format!("s{k}");
        let ih = hash(*h);
        let end = res.finished(&tag).unwrap_or(res.end_ms);
        // this search's queries: tid -> (dst, sent)
        let mut queries: BTreeMap<Vec<u8>, (SocketAddr, u64)> = BTreeMap::new();
        for d in res.wire.iter().filter(|d| d.src == s) {
            let p = krpc::parse(&d.bytes);
            if p.is_query("get_peers") && p.target == Some(ih) {
                queries.insert(p.tid.clone(), (d.dst, d.sent_ms));
            }
        }
        // deliveries to the searcher in time order
        let mut deliveries: Vec<(u64, usize, &Datagram)> = vec![];
        for d in res.wire.iter().filter(|d| d.dst == s) {
            for t in &d.delivered_ms {
                deliveries.push((*t, d.seq, d));
            }
        }
        deliveries.sort_by_key(|x| (x.0, x.1));
        let mut done: BTreeSet<Vec<u8>> = BTreeSet::new();
        let mut allowed_values: BTreeSet<SocketAddr> = BTreeSet::new();
        let mut maybe_values: BTreeSet<SocketAddr> = BTreeSet::new();
        // (id, addr) -> tokens in order of acceptance (definitely / possibly accepted)
        let mut tokens: BTreeMap<([u8; 20], SocketAddr), Vec<(Vec<u8>, bool)>> = BTreeMap::new();
        for (t, _, d) in &deliveries {
            let p = krpc::parse(&d.bytes);
            if p.y != 'r' || *t > end {
                continue;
            }
            if let Some((_, sent)) = queries.get(&p.tid) {
                if done.contains(&p.tid) {
                    continue;
                }
                let age = t.saturating_sub(*sent);
                // a datagram the node's decoder rejects as a whole (e.g. a values entry of 7 bytes) does not
                // complete the exchange: the query stays outstanding and a later response with its id counts
                let decodable = !p.values_malformed && btdht::message::Message::decode(&d.bytes).is_ok();
                let definitely = age <= 1_490 && decodable;
                let possibly = age <= 1_510;
                if possibly {
                    if definitely {
                        done.insert(p.tid.clone());
                        allowed_values.extend(p.values.iter().copied());
                    } else {
                        maybe_values.extend(p.values.iter().copied());
                    }
                    if let (Some(tok), Some(id)) = (&p.token, p.id) {
                        tokens.entry((id, d.src)).or_default().push((tok.clone(), definitely));
                    }
                }
            }
        }
        for (t, a) in res.items(&tag) {
            if !allowed_values.contains(&a) && !maybe_values.contains(&a) {
                v.push((
                    format!("stream-yields-address-no-outstanding-query-answered{}", if is_poison(&a) { " forged" } else { "" }),
                    format!("search #{k} yields {a} at {t} ms; no response with the id of a still outstanding get_peers of this search carried it"),
                ));
            }
        }
        let announces: Vec<(SocketAddr, krpc::Parsed, u64)> = res
            .wire
            .iter()
            .filter(|d| d.src == s)
            .map(|d| (d.dst, krpc::parse(&d.bytes), d.sent_ms))
            .filter(|(_, p, _)| p.is_query("announce_peer") && p.target == Some(ih))
            .collect();
        if !announce && !announces.is_empty() {
            v.push(("announce-without-request".to_string(), format!("search #{k} sent {} announce_peer", announces.len())));
        }
        if announces.len() > 8 {
            v.push(("more-than-8-announces".to_string(), format!("search #{k} sent {}", announces.len())));
        }
        for (dst, p, t) in &announces {
            let holders: Vec<&Vec<(Vec<u8>, bool)>> = tokens.iter().filter(|((_, a), _)| a == dst).map(|(_, v)| v).collect();
            if holders.is_empty() {
                v.push(("announce-to-node-that-gave-no-token".to_string(), format!("search #{k} announces to {dst} at {t} ms, which never answered it with a token")));
                continue;
            }
            let tok = p.token.clone().unwrap_or_default();
            // latest token from that node: the last definitely accepted one, or any possibly accepted after it
            let ok = holders.iter().any(|list| {
                let last_def = list.iter().rposition(|(_, d)| *d);
                match last_def {
                    Some(i) => list[i..].iter().any(|(t, _)| *t == tok),
                    None => list.iter().any(|(t, _)| *t == tok),
                }
            });
            if !ok {
                v.push(("announce-carries-token-not-from-that-node".to_string(), format!("search #{k} announces to {dst} with token {:?}", String::from_utf8_lossy(&tok))));
            }
        }
    }
    v
}

fn fates() -> Vec<Option<Fate>> {
    vec![None, Some(Fate::Deliver(990)), Some(Fate::Deliver(1_600)), Some(Fate::Deliver(3_100)), Some(Fate::Drop), Some(Fate::Duplicate(20, 45))]
}

fn cfg_json(c: &Cfg) -> Value {
    json!({"responders":c.responders,"dup_ids":c.dup_ids,"quirk":c.quirk,"rng_seed":c.rng_seed,"searches":c.searches.iter().map(|(o,h,a)| json!([o,h,a])).collect::<Vec<_>>()})
}
fn cfg_parse(v: &Value) -> Cfg {
    Cfg {
        responders: v["responders"].as_u64().unwrap_or(3) as usize,
        dup_ids: v["dup_ids"].as_bool().unwrap_or(false),
        quirk: v["quirk"].as_u64().unwrap_or(0) as u8,
        rng_seed: v["rng_seed"].as_u64().unwrap_or(1),
        searches: v["searches"].as_array().map(|a| a.iter().map(|s| (s[0].as_u64().unwrap_or(0), s[1].as_u64().unwrap_or(0) as u8, s[2].as_bool().unwrap_or(false))).collect()).unwrap_or_default(),
    }
}

pub fn run_cfg(cfg: &Cfg, adversary: bool, prefix: &[usize]) -> (RunResult, Vec<(String, String)>, bool) {
    let (mut sc, peers) = build(cfg);
    sc.fates = fates();
    if adversary {
        sc.injector = Some(injector());
        sc.inject_menu = MENU_TIDS * MENU_BODIES;
    }
    let mut ch = PrefixChooser { prefix, pos: 0, out_of_range: false };
    let res = sim::run(&sc, peers, &mut ch);
    let v = judge(cfg, &res);
    (res, v, ch.out_of_range)
}

pub fn replay(v: &Value) -> i32 {
    let cfg = cfg_parse(&v["cfg"]);
    let prefix: Vec<usize> = v["choices"].as_array().map(|a| a.iter().map(|x| x.as_u64().unwrap() as usize).collect()).unwrap_or_default();
    let (res, viol, _) = run_cfg(&cfg, v["adversary"].as_bool().unwrap_or(true), &prefix);
    for d in res.wire.iter().filter(|d| d.sent_ms >= T_SEARCH) {
        let p = krpc::parse(&d.bytes);
        if p.q == "find_node" || (p.y == 'r' && p.token.is_none() && !d.injected) {
            continue;
        }
        println!("  {:>7} ms {} > {} {} tid={} {} delivered {:?}", d.sent_ms, d.src, d.dst, p.canon_key(), hex(&p.tid), if d.injected { "FORGED" } else { "" }, d.delivered_ms);
    }
    for k in 0..cfg.searches.len() {
        println!("search #{k}: {:?} end {:?}", res.items(&format!("s{k}")), res.finished(&format!("s{k}")));
    }
    for (s, w) in &viol {
        println!("VIOLATION {s}: {w}");
    }
    if viol.is_empty() { 0 } else { 1 }
}

pub fn run(tier: Tier) -> Report {
    let mut rep = Report::new("C03", "fault_enumeration", tier);
    let seed = 1 + seed();
    let cfgs: Vec<(Cfg, usize)> = vec![
        (Cfg { responders: 3, searches: vec![(0, 0, true)], dup_ids: false, quirk: 0, rng_seed: seed }, tier.pick(1, 2)),
        (Cfg { responders: 3, searches: vec![(0, 0, true), (0, 1, false)], dup_ids: false, quirk: 0, rng_seed: seed }, tier.pick(1, 2)),
        (Cfg { responders: 4, searches: vec![(0, 0, false), (700, 1, true)], dup_ids: false, quirk: 0, rng_seed: seed }, 1),
        (Cfg { responders: 5, searches: vec![(0, 1, true), (20, 0, true)], dup_ids: false, quirk: 0, rng_seed: seed }, 1),
        (Cfg { responders: 3, searches: vec![(0, 0, true), (10, 1, true)], dup_ids: true, quirk: 0, rng_seed: seed }, 1),
        // more token holders than the 8 a search may announce to
        (Cfg { responders: 11, searches: vec![(0, 0, true)], dup_ids: false, quirk: 0, rng_seed: seed }, 0),
        // a responder that gives no token; responders whose values carry an entry of 7 / 19 bytes
        (Cfg { responders: 3, searches: vec![(0, 0, true)], dup_ids: false, quirk: 1, rng_seed: seed }, 1),
        (Cfg { responders: 4, searches: vec![(0, 0, true)], dup_ids: false, quirk: 2, rng_seed: seed }, tier.pick(0, 1)),
        (Cfg { responders: 4, searches: vec![(0, 1, true), (5, 0, false)], dup_ids: false, quirk: 3, rng_seed: seed }, tier.pick(0, 1)),
        // long tokens are echoed byte for byte
        (Cfg { responders: 4, searches: vec![(0, 0, true)], dup_ids: false, quirk: 4, rng_seed: seed }, 0),
    ];
    let mut runs = 0u64;
    let mut levels = vec![];
    let mut injected_total = 0u64;
    for (cfg, bound) in &cfgs {
        let inj_count = std::sync::atomic::AtomicU64::new(0);
        let run_one = |prefix: &[usize]| -> RunOutcome {
            let (res, viol, oor) = run_cfg(cfg, true, prefix);
            inj_count.fetch_add(res.wire.iter().filter(|d| d.injected).count() as u64, std::sync::atomic::Ordering::Relaxed);
            RunOutcome { outcome_hash: sim::trace_hash(&res, ""), wire_events: res.wire.len() as u64, violations: viol, out_of_range: oor, choices: res.choices }
        };
        let s = explore::explore(*bound, tier.pick(15_000, 600_000), &run_one);
        runs += s.runs;
        injected_total += inj_count.load(std::sync::atomic::Ordering::Relaxed);
        rep.add("transitions", s.wire_events);
        rep.add("choice_points", s.choice_points);
        rep.add("distinct_outcomes", s.distinct_outcomes);
        levels.push(json!({"cfg":cfg_json(cfg),"bound_requested":bound,"bound_completed":s.completed_bound,"runs":s.runs,"runs_per_level":s.per_level_runs,"distinct_outcomes":s.distinct_outcomes,"capped":s.capped}));
        for vct in s.sample_vectors.iter().skip(1).take(1) {
            rep.sample(json!({"cfg":cfg_json(cfg),"choices":vct}));
        }
        for (sig, what, choices) in s.violations {
            rep.violation(sig, format!("{what} [{:?}]", cfg), json!({"engine":"E1","check":"C03","cfg":cfg_json(cfg),"choices":choices,"adversary":true}));
        }
    }
    rep.set("explorations", json!(levels));
    rep.set("forged_datagrams_injected", injected_total);
    rep.set("fate_alphabet", json!(["default 20 ms", "990 ms", "1.6 s", "3.1 s", "drop", "duplicate"]));
    rep.set("adversary_menu", json!({"tid_classes":["outstanding tid from another address","outstanding tid of the other search","tid of bootstrap/refresh traffic","already answered tid","timed-out tid","live prefix + unissued message id","random 8 bytes","7 bytes","9 bytes"],"bodies":["poison values + token","node list: duplicate ids, own id, unreachable","values + nodes + fresh id"]}));
    rep.set("evaluations", runs);
    let d = rep.get("distinct_outcomes");
    rep.set("states", d);
    rep.set("distinct_nontrivial", d);
    rep.set("traces_validated_against_impl", runs);
    rep.sample(json!({"cfg":cfg_json(&cfgs[1].0),"choices":[]}));
    rep.set("rule", "One real searcher with 3..5 responders running 1 or 2 concurrent searches (different info-hashes, announce on/off, simultaneous and staggered). Choice points: for every datagram to/from the searcher after the first search starts, its fate {20 ms, 990 ms, 1.6 s, 3.1 s, drop, duplicate} and an adversary injection from a 27-entry menu (9 transaction-id classes x 3 forged bodies) built from the wire log at that instant. All choice vectors with <= 1 (thorough 2 for the first two configurations) deviations. Oracle from the wire alone: every yielded address was in the values of a delivered response whose tid was that of a get_peers of the same search still outstanding (younger than 1.5 s, unanswered, search not ended; +-10 ms band free); announce_peer only to (id, address) pairs that gave this search a token, with the latest such token, <= 8, none without announce.");
    rep
}

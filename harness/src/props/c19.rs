//! C19 — transaction ids: 8 bytes, unique while live, never shared between activities.
//! E2 part: exhaust the generators' reachable positions (block index x offset) on the real
//! AIDGenerator / MIDGenerator. The wire monitor part runs in SimWorld scenarios (sim::monitor).

use crate::common::*;
use btdht::verif::{AIDGenerator, MIDGenerator, TransactionID};
use serde_json::json;
use std::collections::HashSet;

const MSG_SPACE: usize = 1 << 24;

fn prefix(t: &TransactionID) -> [u8; 5] {
    let b = t.as_ref();
    [b[0], b[1], b[2], b[3], b[4]]
}
fn msg_id(t: &TransactionID) -> usize {
    let b = t.as_ref();
    ((b[5] as usize) << 16) | ((b[6] as usize) << 8) | b[7] as usize
}

/// Full cycle of one message id generator. Returns (ids generated, error).
/// `first` is the one id the generator has already issued (drawn when its prefix was checked).
fn full_cycle(mut g: MIDGenerator, first: TransactionID, label: &str) -> (u64, Option<(String, String)>) {
    let mut seen = vec![0u64; MSG_SPACE / 64];
    let pfx = prefix(&first);
    let aid = g.action_id();
    let mut n = 0u64;
    let mut t = first;
    for i in 0..(MSG_SPACE + 4096) {
        if i > 0 {
            t = g.generate();
        }
        n += 1;
        let bytes = t.as_ref();
        if bytes.len() != 8 {
            return (n, Some(("tid-not-8-bytes".into(), format!("{label}: id #{i} has {} bytes", bytes.len()))));
        }
        if prefix(&t) != pfx || t.action_id() != aid {
            return (n, Some(("activity-prefix-changes".into(), format!("{label}: id #{i} = {} leaves the activity prefix {}", hex(bytes), hex(&pfx)))));
        }
        if TransactionID::from_bytes(bytes) != Some(t) {
            return (n, Some(("tid-roundtrip".into(), format!("{label}: from_bytes(as_ref) differs for {}", hex(bytes)))));
        }
        if i < MSG_SPACE {
            let m = msg_id(&t);
            if seen[m / 64] & (1 << (m % 64)) != 0 {
                return (n, Some(("message-id-repeats-before-2^24".into(), format!("{label}: id #{i} = {} was already issued by this activity", hex(bytes)))));
            }
            seen[m / 64] |= 1 << (m % 64);
        }
    }
    (n, None)
}

/// Window around a block boundary / the wrap of the message id allocator.
fn window(g: &MIDGenerator, next_alloc: u64, label: &str) -> (u64, Option<(String, String)>) {
    let mut g = g.verif_at(next_alloc);
    let mut seen = HashSet::new();
    let mut pfx = None;
    for i in 0..4096 {
        let t = g.generate();
        let p = prefix(&t);
        if *pfx.get_or_insert(p) != p {
            return (i, Some(("activity-prefix-changes".into(), format!("{label}: id #{i} = {} changes prefix", hex(t.as_ref())))));
        }
        if !seen.insert(msg_id(&t)) {
            return (i, Some(("message-id-repeats-before-2^24".into(), format!("{label}: id #{i} = {} repeats inside a 4096 window at marker {next_alloc}", hex(t.as_ref())))));
        }
    }
    (4096, None)
}

fn distinct_prefixes(mut a: AIDGenerator, n: usize, label: &str) -> (u64, Option<(String, String)>, Vec<(MIDGenerator, TransactionID)>) {
    let mut seen = HashSet::new();
    let mut seen_aid = HashSet::new();
    let mut keep = vec![];
    for i in 0..n {
        let mut g = a.generate();
        let t = g.generate();
        if t.as_ref().len() != 8 {
            return (i as u64, Some(("tid-not-8-bytes".into(), format!("{label}: activity #{i}"))), keep);
        }
        if t.action_id() != g.action_id() {
            return (i as u64, Some(("activity-prefix-changes".into(), format!("{label}: activity #{i}: id {} not attributed to its own activity", hex(t.as_ref())))), keep);
        }
        if !seen.insert(prefix(&t)) || !seen_aid.insert(g.action_id()) {
            return (i as u64, Some(("activities-share-prefix".into(), format!("{label}: activity #{i} reuses prefix {} of an earlier live activity", hex(&prefix(&t))))), keep);
        }
        if i == 0 || i == 2047 || i == 2048 || i == n - 1 {
            keep.push((g, t));
        }
    }
    (n as u64, None, keep)
}

pub fn replay(_v: &serde_json::Value) -> i32 {
    let mut rep = Report::new("C19", "model_checking", Tier::Quick);
    run(Tier::Quick, &mut rep);
    for v in &rep.violations {
        println!("VIOLATION-REPLAYED {}: {}", v.signature, v.what);
    }
    if rep.violations.is_empty() { 0 } else { 1 }
}

pub fn run(tier: Tier, rep: &mut Report) {
    let mut evals = 0u64;
    let mut viol: Vec<(String, String)> = vec![];
    // Activities: three blocks + 1 from a fresh generator; the last two blocks before 2^40 and the wrap.
    let (n, e, gens_a) = distinct_prefixes(AIDGenerator::new(), 3 * 2048 + 1, "fresh AIDGenerator");
    evals += n;
    viol.extend(e);
    let (n, e, gens_b) = distinct_prefixes(AIDGenerator::verif_at((1u64 << 40) - 2 * 2048), 3 * 2048 + 1, "AIDGenerator at 2^40-4096");
    evals += n;
    viol.extend(e);
    // blocks at allocation markers far apart must not collide with each other or with block 0
    {
        let mut seen: HashSet<[u8; 5]> = HashSet::new();
        for marker in [0u64, 2048, (1 << 24) - 2048, 1 << 24, 2 << 24, 1 << 32, (1u64 << 40) - 2048] {
            let mut a = AIDGenerator::verif_at(marker);
            for i in 0..2048 {
                let mut g = a.generate();
                let t = g.generate();
                evals += 1;
                if t.action_id() != g.action_id() {
                    viol.push(("activity-prefix-changes".into(), format!("marker {marker} activity #{i}: id {} not attributed to its own activity", hex(t.as_ref()))));
                    break;
                }
                if !seen.insert(prefix(&t)) {
                    viol.push(("activities-share-prefix".into(), format!("activity #{i} of the block at allocation marker {marker} gets prefix {} which an activity of another block already has", hex(&prefix(&t)))));
                    break;
                }
            }
        }
    }
    rep.set("activities_generated", evals);

    let mut gens: Vec<(String, (MIDGenerator, TransactionID))> = vec![];
    for (i, g) in gens_a.into_iter().enumerate() {
        gens.push((format!("fresh#{i}"), g));
    }
    for (i, g) in gens_b.into_iter().enumerate() {
        gens.push((format!("near-wrap#{i}"), g));
    }
    // block boundary windows on every kept generator
    let mut windows = 0;
    for (label, g) in &gens {
        for marker in [0u64, 2048, (1 << 24) - 2048, 1 << 24, (1 << 24) - 4096] {
            let (n, e) = window(&g.0, marker, label);
            evals += n;
            windows += 1;
            viol.extend(e);
        }
    }
    rep.set("boundary_windows", windows);
    // full 2^24 cycles
    let take = tier.pick(2, gens.len());
    let cyc: Vec<(String, (MIDGenerator, TransactionID))> = gens.into_iter().take(take).collect();
    let labels: Vec<String> = cyc.iter().map(|(l, _)| l.clone()).collect();
    let cells: Vec<std::sync::Mutex<Option<(MIDGenerator, TransactionID)>>> =
        cyc.into_iter().map(|(_, g)| std::sync::Mutex::new(Some(g))).collect();
    let outs = par_map(&cells, |i, c| {
        let (g, first) = c.lock().unwrap().take().unwrap();
        full_cycle(g, first, &labels[i])
    });
    let mut ids = 0u64;
    for (n, e) in outs {
        ids += n;
        viol.extend(e);
    }
    evals += ids;
    rep.set("full_cycles", take as u64);
    rep.set("message_ids_generated", ids);
    rep.add("states", evals);
    rep.add("transitions", evals);
    rep.sample(json!({"engine":"E2","what":"MIDGenerator full cycle","ids": MSG_SPACE + 4096, "generators": labels}));
    viol.sort();
    viol.dedup_by(|a, b| a.0 == b.0);
    for (sig, what) in viol {
        rep.violation(format!("generator {sig}"), what, json!({"engine":"E2","check":"C19","part":"generators"}));
    }
}

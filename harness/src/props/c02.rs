//! C02 — a search reaches the 8 closest nodes, announces to them, yields every peer found (E1:
//! one real searcher among scripted ideal responders).

use crate::common::*;
use crate::sim::explore::{self, PrefixChooser, RunOutcome};
use crate::sim::peers::{xor_dist, NodeList, Responder};
use crate::sim::{self, krpc, Action, Fate, NodeSpec, Peer, RunResult, Scenario, When};
use btdht::InfoHash;
use serde_json::{json, Value};
use std::collections::BTreeMap;
use std::net::SocketAddr;
use std::sync::Arc;

const T_SEARCH: u64 = 20_000;

#[derive(Clone, Debug)]
pub struct Cfg {
    /// ids of the responders
    pub ids: Vec<[u8; 20]>,
    pub searcher_id: [u8; 20],
    pub info_hash: [u8; 20],
    /// indices of the responders given to the builder as contacts
    pub contacts: Vec<usize>,
    pub read_only: bool,
    pub port: Option<u16>,
    pub announce: bool,
    /// 0 none, 1 one node holds 2 peers, 2 all hold 1 (two of them the same address), 3 all hold one IPv4 and one IPv6 peer
    pub peer_sets: u8,
    /// responders also name the searcher itself
    pub name_searcher: bool,
    pub v6: bool,
    pub rng_seed: u64,
    /// instant of the search
    pub search_at_ms: u64,
    /// an earlier non-announcing search (instant, info-hash) that refreshes part of the table
    pub warmup: Vec<(u64, [u8; 20])>,
    /// (responder index, size): that responder holds 150 peers and pads its answers to exactly this size
    pub exact_reply: Option<(usize, usize)>,
    /// the caller drops the search's stream this long after requesting it (0: at once); None: reads it to the end
    pub drop_stream_ms: Option<u64>,
}

pub fn searcher_addr(v6: bool) -> SocketAddr {
    if v6 { "[fd00::5]:6881".parse().unwrap() } else { "10.0.0.5:6881".parse().unwrap() }
}
pub fn resp_addr(i: usize, v6: bool) -> SocketAddr {
    if v6 {
        format!("[fd00::a:{:x}]:{}", i + 1, 7000 + (i % 50)).parse().unwrap()
    } else {
        format!("10.{}.{}.{}:{}", 1 + i / 62_500, (i / 250) % 250, 1 + i % 250, 7000 + (i % 50)).parse().unwrap()
    }
}

pub fn prefix_id(prefix: u8, bits: u32, tail: u8) -> [u8; 20] {
    let mut b = [tail; 20];
    b[0] = (prefix << (8 - bits)) | (tail & (0xff >> bits));
    b
}

fn peer_addr(k: usize, v6: bool) -> SocketAddr {
    if v6 { format!("[fd00::beef:{:x}]:{}", k + 1, 9000 + k).parse().unwrap() } else { format!("172.16.{}.{}:{}", k / 250, 1 + k % 250, 9000 + k).parse().unwrap() }
}

pub fn build(cfg: &Cfg) -> (Scenario, Vec<Box<dyn Peer>>) {
    let mut sc = Scenario::new("search-convergence");
    sc.rng_seed = cfg.rng_seed;
    let saddr = searcher_addr(cfg.v6);
    let mut uni: Vec<([u8; 20], SocketAddr)> = cfg.ids.iter().enumerate().map(|(i, id)| (*id, resp_addr(i, cfg.v6))).collect();
    if cfg.name_searcher {
        uni.push((cfg.searcher_id, saddr));
    }
    let universe = Arc::new(uni);
    let mut peers: Vec<Box<dyn Peer>> = vec![];
    for (i, id) in cfg.ids.iter().enumerate() {
        let mut r = Responder::new(resp_addr(i, cfg.v6), *id, universe.clone());
        r.node_list = NodeList::Closest8;
        r.name_requester = cfg.name_searcher;
        let mut tok = format!("T{i:05}-").into_bytes();
        tok.extend_from_slice(&id[..4]);
        r.token = tok;
        r.values = match cfg.peer_sets {
            1 if i == cfg.ids.len() / 2 => vec![peer_addr(0, cfg.v6), peer_addr(1, cfg.v6)],
            2 => vec![peer_addr(if i < 2 { 7 } else { 10 + i }, cfg.v6)],
            // answers whose values mix both address families (other implementations send such lists)
            3 => vec![peer_addr(20 + i, cfg.v6), peer_addr(40 + i, !cfg.v6)],
            _ => vec![],
        };
        if let Some((who, size)) = cfg.exact_reply {
            if who == i {
                r.values = (0..150).map(|k| peer_addr(500 + k, cfg.v6)).collect();
                r.pad_reply_to = Some(size);
            }
        }
        peers.push(Box::new(r));
    }
    sc.nodes.push(NodeSpec {
        addr: saddr,
        id: Some(InfoHash::from(cfg.searcher_id)),
        read_only: cfg.read_only,
        announce_port: cfg.port,
        contacts: cfg.contacts.iter().map(|i| resp_addr(*i, cfg.v6)).collect(),
        routers: vec![],
        start_ms: 0,
    });
    sc.actions.push((When::At(0), Action::Bootstrapped { node: 0, tag: "boot".into() }));
    for (k, (t, h)) in cfg.warmup.iter().enumerate() {
        sc.actions.push((When::At(*t), Action::Search { node: 0, info_hash: InfoHash::from(*h), announce: false, tag: format!("warmup{k}") }));
    }
    match cfg.drop_stream_ms {
        None => {
            sc.actions.push((When::At(cfg.search_at_ms), Action::Search { node: 0, info_hash: InfoHash::from(cfg.info_hash), announce: cfg.announce, tag: "search".into() }));
            sc.stop_after = vec!["search".into()];
            sc.linger_ms = 30;
            sc.horizon_ms = cfg.search_at_ms + 600_000;
        }
        Some(after_ms) => {
            // nobody watches the search end; lookups in these networks take a few seconds
            sc.actions.push((When::At(cfg.search_at_ms), Action::SearchDrop { node: 0, info_hash: InfoHash::from(cfg.info_hash), announce: cfg.announce, tag: "search".into(), after_ms }));
            sc.horizon_ms = cfg.search_at_ms + 60_000;
        }
    }
    sc.link_latency = Arc::new(|_, _| 20);
    if !cfg.warmup.is_empty() && std::env::var("VERIF_DEBUG2").is_ok() {
        sc.sample = vec![(0, 30_000, 1_000)];
    }
    if !cfg.warmup.is_empty() {
        // contacts sample right before the search (debugging aid and evidence of the table state)
        sc.actions.push((When::At(cfg.search_at_ms - 1), Action::LoadContacts { node: 0, tag: "pre".into() }));
    }
    let ih = cfg.info_hash;
    let t_search = cfg.search_at_ms;
    sc.eligible = Some(Arc::new(move |d, p| {
        d.sent_ms >= t_search && p.valid && ((p.y == 'q' && (p.q == "get_peers" || p.q == "announce_peer") && p.target == Some(ih)) || (p.y == 'r' && p.token.is_some()))
    }));
    (sc, peers)
}

pub fn judge(cfg: &Cfg, res: &RunResult) -> Vec<(String, String)> {
    let mut v = vec![];
    let s = searcher_addr(cfg.v6);
    if cfg.drop_stream_ms.is_none() && res.finished("search").is_none() {
        v.push(("search-did-not-end".to_string(), format!("horizon {} ms", res.end_ms)));
        return v;
    }
    let t_search = cfg.search_at_ms;
    if res.resolved("boot").map_or(true, |r| r.0 > t_search) {
        // premise: the searcher is bootstrapped when it searches
        return v;
    }
    // the search's get_peers queries and the answers delivered to them
    let mut queries: BTreeMap<Vec<u8>, (SocketAddr, u64)> = BTreeMap::new();
    for d in res.wire.iter().filter(|d| d.src == s && d.sent_ms >= t_search) {
        let p = krpc::parse(&d.bytes);
        if p.is_query("get_peers") && p.target == Some(cfg.info_hash) {
            queries.insert(p.tid.clone(), (d.dst, d.sent_ms));
        }
    }
    let mut expected_stream: Vec<SocketAddr> = vec![];
    let mut answered: BTreeMap<SocketAddr, Vec<u8>> = BTreeMap::new();
    for d in res.wire.iter().filter(|d| d.dst == s && !d.delivered_ms.is_empty()) {
        let p = krpc::parse(&d.bytes);
        if p.y != 'r' {
            continue;
        }
        if let Some((to, _)) = queries.get(&p.tid) {
            if *to == d.src {
                expected_stream.extend(p.values.iter().copied());
                if let Some(t) = p.token {
                    answered.insert(d.src, t);
                }
            }
        }
    }
    let mut got: Vec<SocketAddr> = res.items("search").into_iter().map(|(_, a)| a).collect();
    got.sort();
    expected_stream.sort();
    if cfg.drop_stream_ms.is_some() {
        // a dropped stream yields a prefix of what the answers carried
        let mut rest = expected_stream.clone();
        for g in &got {
            match rest.iter().position(|x| x == g) {
                Some(i) => {
                    rest.remove(i);
                }
                None => v.push(("stream-yields-address-no-answer-carried".to_string(), format!("{g}"))),
            }
        }
    } else if got != expected_stream {
        v.push((
            "stream-differs-from-values-received".to_string(),
            format!("stream yields {} addresses {:?}, answers carried {} {:?}", got.len(), &got[..got.len().min(6)], expected_stream.len(), &expected_stream[..expected_stream.len().min(6)]),
        ));
    }
    // announces
    let announces: Vec<(SocketAddr, krpc::Parsed)> = res
        .wire
        .iter()
        .filter(|d| d.src == s && d.sent_ms >= t_search)
        .map(|d| (d.dst, krpc::parse(&d.bytes)))
        .filter(|(_, p)| p.is_query("announce_peer"))
        .collect();
    if !cfg.announce {
        if !announces.is_empty() {
            v.push(("announce-without-request".to_string(), format!("{} announce_peer sent by a non-announcing search", announces.len())));
        }
        return v;
    }
    let mut all: Vec<([u8; 20], SocketAddr, Option<Vec<u8>>)> = cfg.ids.iter().enumerate().map(|(i, id)| (*id, resp_addr(i, cfg.v6), Some(token_of(i, id)))).collect();
    // the searcher itself is a node of the network only if it serves (a read-only node never
    // answers its own query, so it cannot hold a token)
    if cfg.name_searcher && !cfg.read_only {
        all.push((cfg.searcher_id, s, None));
    }
    all.sort_by_key(|(id, _, _)| xor_dist(id, &cfg.info_hash));
    // ties in distance (equal ids on different addresses) make the "8 closest" ambiguous: accept any
    let k = all.len().min(8);
    let cutoff = xor_dist(&all[k - 1].0, &cfg.info_hash);
    let must: Vec<SocketAddr> = all.iter().filter(|(id, _, _)| xor_dist(id, &cfg.info_hash) < cutoff).map(|(_, a, _)| *a).collect();
    let may: Vec<SocketAddr> = all.iter().filter(|(id, _, _)| xor_dist(id, &cfg.info_hash) <= cutoff).map(|(_, a, _)| *a).collect();
    let dsts: Vec<SocketAddr> = announces.iter().map(|(d, _)| *d).collect();
    let mut uniq = dsts.clone();
    uniq.sort();
    uniq.dedup();
    if uniq.len() != dsts.len() {
        v.push(("announce-sent-twice-to-a-node".to_string(), format!("{:?}", dsts)));
    }
    if dsts.len() != k || must.iter().any(|m| !dsts.contains(m)) || dsts.iter().any(|d| !may.contains(d)) {
        let missing: Vec<_> = must.iter().filter(|m| !dsts.contains(m)).collect();
        let wrong: Vec<_> = dsts.iter().filter(|d| !may.contains(d)).collect();
        v.push((
            "announce-targets-are-not-the-closest".to_string(),
            format!("{} announces (expected {}); closest nodes missed {:?}; not among the closest {:?}; nodes that answered: {}", dsts.len(), k, missing, wrong, answered.len()),
        ));
    }
    for (dst, p) in &announces {
        let want_tok = answered.get(dst).cloned();
        if let Some(t) = want_tok {
            if p.token.as_ref() != Some(&t) {
                v.push(("announce-carries-wrong-token".to_string(), format!("to {dst}: token {:?} instead of the one that node issued", p.token.as_ref().map(|t| String::from_utf8_lossy(t).to_string()))));
            }
        }
        if p.target != Some(cfg.info_hash) || p.id != Some(cfg.searcher_id) {
            v.push(("announce-carries-wrong-hash-or-id".to_string(), format!("to {dst}")));
        }
        let port_ok = match cfg.port {
            Some(port) => p.port == Some(port as i64) && p.implied_port.unwrap_or(0) == 0,
            None => p.implied_port == Some(1),
        };
        if !port_ok {
            v.push(("announce-carries-wrong-port".to_string(), format!("to {dst}: port {:?} implied_port {:?}, configured {:?}", p.port, p.implied_port, cfg.port)));
        }
    }
    v
}

fn token_of(i: usize, id: &[u8; 20]) -> Vec<u8> {
    let mut tok = format!("T{i:05}-").into_bytes();
    tok.extend_from_slice(&id[..4]);
    tok
}

fn cfg_json(c: &Cfg) -> Value {
    json!({"ids": c.ids.iter().map(|i| hex(i)).collect::<Vec<_>>(), "searcher_id": hex(&c.searcher_id), "info_hash": hex(&c.info_hash), "contacts": c.contacts,
        "read_only": c.read_only, "port": c.port, "announce": c.announce, "peer_sets": c.peer_sets, "name_searcher": c.name_searcher, "v6": c.v6, "rng_seed": c.rng_seed, "search_at_ms": c.search_at_ms, "exact_reply": c.exact_reply.map(|(a, b)| json!([a, b])), "drop_stream_ms": c.drop_stream_ms, "warmup": c.warmup.iter().map(|(t, h)| json!([t, hex(h)])).collect::<Vec<_>>()})
}
fn arr20(s: &str) -> [u8; 20] {
    let v = unhex(s);
    let mut a = [0u8; 20];
    a.copy_from_slice(&v[..20]);
    a
}
fn cfg_parse(v: &Value) -> Cfg {
    Cfg {
        ids: v["ids"].as_array().map(|a| a.iter().map(|x| arr20(x.as_str().unwrap())).collect()).unwrap_or_default(),
        searcher_id: arr20(v["searcher_id"].as_str().unwrap()),
        info_hash: arr20(v["info_hash"].as_str().unwrap()),
        contacts: v["contacts"].as_array().map(|a| a.iter().map(|x| x.as_u64().unwrap() as usize).collect()).unwrap_or_default(),
        read_only: v["read_only"].as_bool().unwrap_or(true),
        port: v["port"].as_u64().map(|p| p as u16),
        announce: v["announce"].as_bool().unwrap_or(true),
        peer_sets: v["peer_sets"].as_u64().unwrap_or(0) as u8,
        name_searcher: v["name_searcher"].as_bool().unwrap_or(false),
        v6: v["v6"].as_bool().unwrap_or(false),
        rng_seed: v["rng_seed"].as_u64().unwrap_or(1),
        search_at_ms: v["search_at_ms"].as_u64().unwrap_or(T_SEARCH),
        exact_reply: v["exact_reply"].as_array().map(|a| (a[0].as_u64().unwrap() as usize, a[1].as_u64().unwrap() as usize)),
        drop_stream_ms: v["drop_stream_ms"].as_u64(),
        warmup: v["warmup"].as_array().map(|a| a.iter().map(|w| (w[0].as_u64().unwrap(), arr20(w[1].as_str().unwrap()))).collect()).unwrap_or_default(),
    }
}

fn fates() -> Vec<Option<Fate>> {
    vec![None, Some(Fate::Deliver(1)), Some(Fate::Deliver(240)), Some(Fate::Deliver(480))]
}

pub fn run_cfg(cfg: &Cfg, fs: &[Option<Fate>], prefix: &[usize]) -> (RunResult, Vec<(String, String)>, bool) {
    let (mut sc, peers) = build(cfg);
    sc.fates = fs.to_vec();
    let mut ch = PrefixChooser { prefix, pos: 0, out_of_range: false };
    let res = sim::run(&sc, peers, &mut ch);
    let v = judge(cfg, &res);
    (res, v, ch.out_of_range)
}

pub fn replay(v: &Value) -> i32 {
    let cfg = cfg_parse(&v["cfg"]);
    let prefix: Vec<usize> = v["choices"].as_array().map(|a| a.iter().map(|x| x.as_u64().unwrap() as usize).collect()).unwrap_or_default();
    let fs = if prefix.is_empty() { vec![None] } else { fates() };
    let (res, viol, _) = run_cfg(&cfg, &fs, &prefix);
    let s = searcher_addr(cfg.v6);
    for d in res.wire.iter().filter(|d| d.sent_ms >= cfg.search_at_ms && (d.src == s || d.dst == s)).take(200) {
        let p = krpc::parse(&d.bytes);
        if p.q == "find_node" || (p.y == 'r' && p.token.is_none() && p.values.is_empty() && !d.from_real && false) {
            continue;
        }
        println!("  {:>7} ms {} > {} {} delivered {:?}", d.sent_ms, d.src, d.dst, p.canon_key(), d.delivered_ms);
    }
    println!("stream: {:?}", res.items("search"));
    for (sg, w) in &viol {
        println!("VIOLATION {sg}: {w}");
    }
    if viol.is_empty() { 0 } else { 1 }
}

fn subsets(n: usize, max: usize) -> Vec<Vec<usize>> {
    let mut out = vec![];
    for mask in 1u32..(1 << n) {
        if (mask.count_ones() as usize) <= max {
            out.push((0..n).filter(|i| mask & (1 << i) != 0).collect());
        }
    }
    out
}

pub fn structured(kind: u8, n: usize, seed: u64) -> Cfg {
    // kind 0 uniform, 1 clustered within 16 bits of the target, 2 clustered within 16 bits of the searcher
    let mut r = SplitMix(0xc02_0000 + seed * 31 + n as u64 * 7 + kind as u64);
    let info_hash = r.bytes20();
    let mut searcher_id = r.bytes20();
    searcher_id[0] = !info_hash[0];
    let mut ids = vec![];
    for i in 0..n {
        let mut id = r.bytes20();
        match kind {
            1 if i % 3 != 0 => {
                id[..2].copy_from_slice(&info_hash[..2]);
            }
            2 if i % 3 != 0 => {
                // ever longer shared prefixes with the searcher: a table with many buckets
                let share = 16 + (i % 140);
                for b in 0..share {
                    let bit = (searcher_id[b / 8] >> (7 - b % 8)) & 1;
                    id[b / 8] = (id[b / 8] & !(1 << (7 - b % 8))) | (bit << (7 - b % 8));
                }
                let b = share;
                let bit = ((searcher_id[b / 8] >> (7 - b % 8)) & 1) ^ 1;
                id[b / 8] = (id[b / 8] & !(1 << (7 - b % 8))) | (bit << (7 - b % 8));
            }
            _ => {}
        }
        ids.push(id);
    }
    ids.sort();
    ids.dedup();
    Cfg { ids, searcher_id, info_hash, contacts: vec![0], read_only: true, port: None, announce: true, peer_sets: 2, name_searcher: false, v6: false, rng_seed: 1 + seed, search_at_ms: T_SEARCH, warmup: vec![], exact_reply: None, drop_stream_ms: None }
}

pub fn run(tier: Tier) -> Report {
    let mut rep = Report::new("C02", "model_checking", tier);
    let seed = seed();
    let bits: u32 = tier.pick(3, 4);
    let uni: Vec<[u8; 20]> = (0..(1u8 << bits)).map(|p| prefix_id(p, bits, 0x55)).collect();
    let far = [0xf7u8; 20];
    let tops = subsets(uni.len(), tier.pick(5, 6));
    // L1: every (topology, searcher id, info-hash) at the default schedule and default modes
    let mut l1: Vec<Cfg> = vec![];
    for t in &tops {
        let ids: Vec<[u8; 20]> = t.iter().map(|i| uni[*i]).collect();
        let mut searchers: Vec<[u8; 20]> = uni.iter().map(|u| {
            let mut s = *u;
            s[19] = 0x99; // same prefix class as a universe id, distinct id
            s
        }).collect();
        searchers.push(far);
        if tier == Tier::Thorough {
            searchers.truncate(9);
            searchers.push(far);
        }
        for sid in &searchers {
            for hk in 0..3 {
                let ih = match hk {
                    0 => prefix_id(0, bits, 0x11),
                    1 => ids[ids.len() / 2],
                    _ => *sid,
                };
                l1.push(Cfg { ids: ids.clone(), searcher_id: *sid, info_hash: ih, contacts: vec![0], read_only: true, port: None, announce: true, peer_sets: 2, name_searcher: false, v6: false, rng_seed: 1 + seed, search_at_ms: T_SEARCH, warmup: vec![], exact_reply: None, drop_stream_ms: None });
            }
        }
    }
    // L3: every topology of size <= 3 x remaining configuration bits
    let mut l3: Vec<Cfg> = vec![];
    for t in tops.iter().filter(|t| t.len() <= 3) {
        let ids: Vec<[u8; 20]> = t.iter().map(|i| uni[*i]).collect();
        let ih = prefix_id(1, bits, 0x22);
        let order: Vec<usize> = {
            let mut o: Vec<usize> = (0..ids.len()).collect();
            o.sort_by_key(|i| xor_dist(&ids[*i], &ih));
            o
        };
        let contact_sets: Vec<Vec<usize>> = if ids.len() >= 2 { vec![vec![order[0]], vec![order[ids.len() - 1]], vec![order[0], order[ids.len() - 1]]] } else { vec![vec![0]] };
        for contacts in contact_sets {
            for read_only in [true, false] {
                for (announce, port) in [(true, None), (true, Some(4242u16)), (false, None)] {
                    for peer_sets in 0..3u8 {
                        for name_searcher in [false, true] {
                            for v6 in [false, true] {
                                if v6 && (peer_sets == 0 || !read_only) {
                                    continue;
                                }
                                l3.push(Cfg { ids: ids.clone(), searcher_id: far, info_hash: ih, contacts: contacts.clone(), read_only, port, announce, peer_sets, name_searcher, v6, rng_seed: 1 + seed, search_at_ms: T_SEARCH, warmup: vec![], exact_reply: None, drop_stream_ms: None });
                            }
                        }
                    }
                }
            }
        }
    }
    // structured large networks
    let mut big: Vec<Cfg> = vec![];
    for n in tier.pick(vec![30usize, 200], vec![30, 200, 1000]) {
        for kind in 0..3u8 {
            big.push(structured(kind, n, seed));
            let mut c = structured(kind, n, seed + 1);
            c.port = Some(999);
            c.read_only = false;
            big.push(c);
        }
    }
    // answers whose values mix IPv4 and IPv6 peers: every address is yielded, whatever the searcher's family
    let mut mixed: Vec<Cfg> = vec![];
    for (i, c) in l1.iter().enumerate() {
        if i % tier.pick(11, 3) == 0 {
            let mut c = c.clone();
            c.peer_sets = 3;
            mixed.push(c);
        }
    }
    for v6 in [false, true] {
        let mut c = structured(0, 30, seed + 3);
        c.peer_sets = 3;
        c.v6 = v6;
        mixed.push(c);
    }
    // the application does not read the stream (announce only): dropped at once / after 60 ms / after 500 ms
    let mut dropped: Vec<Cfg> = vec![];
    for n in [30usize, 200] {
        for kind in 0..3u8 {
            for after in [0u64, 60, 500] {
                let mut c = structured(kind, n, seed + 2);
                c.peer_sets = 2;
                c.announce = true;
                c.drop_stream_ms = Some(after);
                dropped.push(c);
            }
        }
    }
    for (i, c) in l1.iter().enumerate() {
        if i % tier.pick(9, 2) == 0 {
            let mut c = c.clone();
            c.peer_sets = 2;
            c.announce = true;
            c.drop_stream_ms = Some([0u64, 60, 500][i % 3]);
            dropped.push(c);
        }
    }
    // stale bucket: the 8 entries of the target's bucket turn questionable (15 min after their last
    // answer) while nearer buckets were refreshed by a warm-up search; the search is issued at
    // every half second across that window
    let mut stale: Vec<Cfg> = vec![];
    {
        let mut sid = [0x5au8; 20];
        sid[0] = 0x80;
        let mut ids: Vec<[u8; 20]> = vec![];
        for i in 0..8u8 {
            let mut id = [0x11u8; 20];
            id[0] = 0x08 | i; // far half: bucket 0 of the searcher, close to the target
            id[19] = i;
            ids.push(id);
        }
        for i in 0..14u8 {
            let mut id = [0x22u8; 20];
            id[0] = 0x80 | (0x40 >> (i % 6)); // near half, spread over buckets 1..6
            id[1] = i;
            ids.push(id);
        }
        let mut target = [0x11u8; 20];
        target[0] = 0x09;
        let mut near = sid;
        near[19] ^= 1;
        // warm-up searches: the far half is last heard at ~100 s, the near half at ~300 s; the far
        // entries therefore all turn questionable within a fraction of a second after 1000 s
        let mut far_hash = target;
        far_hash[19] ^= 0x55;
        let step = tier.pick(500u64, 100u64);
        let mut t = 999_000u64;
        while t <= 1_008_000 {
            stale.push(Cfg { ids: ids.clone(), searcher_id: sid, info_hash: target, contacts: vec![8, 9, 10, 0, 1], read_only: true, port: None, announce: true, peer_sets: 0, name_searcher: false, v6: false, rng_seed: 1 + seed, search_at_ms: t, warmup: vec![(100_000, far_hash), (300_000, near)], exact_reply: None, drop_stream_ms: None });
            t += step;
        }
    }
    // answers of exactly 1493..1500 bytes (the largest a peer may send) from the 2nd closest node
    let mut exact: Vec<Cfg> = vec![];
    {
        let ids: Vec<[u8; 20]> = (0..10u8).map(|i| prefix_id(i, 4, 0x37)).collect();
        let ih = prefix_id(0, 4, 0x12);
        for size in [1400usize, 1493, 1498, 1499, 1500] {
            for who in [1usize, 6] {
                exact.push(Cfg { ids: ids.clone(), searcher_id: far, info_hash: ih, contacts: vec![9], read_only: true, port: None, announce: true, peer_sets: 0, name_searcher: false, v6: false, rng_seed: 1 + seed, search_at_ms: T_SEARCH, warmup: vec![], exact_reply: Some((who, size)), drop_stream_ms: None });
            }
        }
    }
    let mut distinct = std::collections::HashSet::new();
    let mut runs = 0u64;
    for (name, set) in [("L1", &l1), ("L3", &l3), ("large", &big), ("stale-bucket", &stale), ("exact-size-answers", &exact), ("dropped-stream", &dropped), ("mixed-family-values", &mixed)] {
        let outs = par_map(set, |_, cfg| {
            let (res, viol, _) = run_cfg(cfg, &[None], &[]);
            let announces = res.wire.iter().filter(|d| d.from_real && krpc::parse(&d.bytes).is_query("announce_peer")).count() as u64;
            // first-round profile: how many of the queries sent at the instant of the search go to the far half
            let first_far = res.wire.iter().filter(|d| d.from_real && d.sent_ms == cfg.search_at_ms && krpc::parse(&d.bytes).is_query("get_peers")).count() as u64;
            if name == "stale-bucket" && std::env::var("VERIF_DEBUG").is_ok() {
                let contacts: Vec<String> = res.api.iter().filter_map(|e| match &e.kind { sim::ApiKind::Contacts { good, questionable } => Some(format!("{} g={} q={}", e.t_ms, good.len(), questionable.len())), _ => None }).collect();
                eprintln!("stale t={} first_round_queries={} announces={} {:?}", cfg.search_at_ms, first_far, announces, contacts.last());
                if std::env::var("VERIF_DEBUG2").is_ok() && cfg.search_at_ms == 900_000 {
                    for c in &contacts { eprintln!("   {c}"); }
                    let far_traffic: Vec<String> = res.wire.iter().filter(|d| d.sent_ms > 5_000 && d.sent_ms < 890_000 && (d.dst == resp_addr(0, false) || d.src == resp_addr(0, false))).map(|d| format!("{} {}>{} {}", d.sent_ms, d.src, d.dst, krpc::parse(&d.bytes).canon_key())).collect();
                    for l in far_traffic.iter().take(30) { eprintln!("   {l}"); }
                }
            }
            (sim::trace_hash(&res, &format!("{:?}{:?}", cfg.info_hash, cfg.searcher_id)), res.wire.len() as u64, viol, announces, res.items("search").len() as u64)
        });
        for (cfg, (h, wire, viol, ann, items)) in set.iter().zip(outs.iter()) {
            distinct.insert(*h);
            rep.add("transitions", *wire);
            rep.add("announce_peer_checked", *ann);
            rep.add("stream_items_checked", *items);
            for (sig, what) in viol {
                rep.violation(format!("{name} {sig}"), format!("{what} [{} responders]", cfg.ids.len()), json!({"engine":"E1","check":"C02","cfg":cfg_json(cfg),"choices":[]}));
            }
        }
        rep.set(&format!("{name}_runs"), set.len() as u64);
        runs += set.len() as u64;
    }
    // L2: deviations on the search's datagrams: every topology x 3 fixed (searcher, info-hash) pairs
    let fs = fates();
    let bound = tier.pick(1, 2);
    let mut l2: Vec<Cfg> = vec![];
    // thorough: double deviations are affordable for topologies of at most 4 nodes
    for t in tops.iter().filter(|t| t.len() >= 2 && (tier == Tier::Quick || t.len() <= 4)) {
        let ids: Vec<[u8; 20]> = t.iter().map(|i| uni[*i]).collect();
        for (sid, ih) in [(far, prefix_id(0, bits, 0x11)), (prefix_id(2, bits, 0x99), prefix_id(5, bits, 0x33)), (far, ids[0])] {
            l2.push(Cfg { ids: ids.clone(), searcher_id: sid, info_hash: ih, contacts: vec![ids.len() - 1], read_only: true, port: Some(1234), announce: true, peer_sets: 1, name_searcher: false, v6: false, rng_seed: 1 + seed, search_at_ms: T_SEARCH, warmup: vec![], exact_reply: None, drop_stream_ms: None });
        }
    }
    if tier == Tier::Quick {
        l2 = l2.into_iter().step_by(3).collect();
    }
    let l2outs = par_map(&l2, |_, cfg| {
        let run_one = |prefix: &[usize]| -> RunOutcome {
            let (res, viol, oor) = run_cfg(cfg, &fs, prefix);
            RunOutcome { outcome_hash: sim::trace_hash(&res, ""), wire_events: res.wire.len() as u64, violations: viol, out_of_range: oor, choices: res.choices }
        };
        // inner exploration runs sequentially here (the outer level is parallel)
        explore::explore_seq(bound, 6_000, &run_one)
    });
    let mut l2runs = 0;
    let mut completed = bound as i64;
    for (cfg, s) in l2.iter().zip(l2outs.into_iter()) {
        l2runs += s.runs;
        rep.add("transitions", s.wire_events);
        rep.add("choice_points", s.choice_points);
        rep.add("L2_distinct_outcomes", s.distinct_outcomes);
        completed = completed.min(s.completed_bound);
        for (sig, what, choices) in s.violations {
            rep.violation(format!("L2 {sig}"), format!("{what} [{} responders]", cfg.ids.len()), json!({"engine":"E1","check":"C02","cfg":cfg_json(cfg),"choices":choices}));
        }
    }
    rep.set("L2_topologies", l2.len() as u64);
    rep.set("L2_runs", l2runs);
    rep.set("L2_deviation_bound_completed", completed);
    runs += l2runs;
    rep.set("evaluations", runs);
    let d = distinct.len() as u64 + rep.get("L2_distinct_outcomes");
    rep.set("states", d);
    rep.set("distinct_nontrivial", d);
    rep.set("traces_validated_against_impl", runs);
    rep.sample(json!({"layer":"L1","cfg":cfg_json(&l1[l1.len() / 2])}));
    rep.sample(json!({"layer":"L3","cfg":cfg_json(&l3[l3.len() / 3])}));
    rep.set("rule", "One real searcher; all other nodes are scripted ideal responders (answer within the assigned latency, list the 8 truly closest nodes, own token, configured peers). L1: every subset of size 1..5 (thorough 1..6) of a 3-bit (4-bit) prefix universe x searcher id in universe+far x info-hash {0-prefix, a node's id, the searcher's id}; L2: every topology x 3 (searcher, info-hash) pairs x every single (thorough double) latency deviation over {1,20,240,480} ms on the search's datagrams; L3: every topology of size <= 3 x contact choice x read-only x port/announce x peer sets x responders naming the searcher x family; large: 30/200(/1000) node networks, uniform / clustered at the target / clustered at the searcher. Oracle: announce_peer exactly to the 8 closest (all if fewer) with that node's token, hash, own id, port/implied_port; stream == multiset of values of all answers delivered to the search's get_peers.");
    rep
}

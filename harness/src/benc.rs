//! Independent bencode value model + reference KRPC encoder (BEP3/5/32), used by C13/C14 and by
//! the scripted peers of SimWorld. Nothing here uses the crate's serde code.

use btdht::message::{Message, MessageBody, Request, Want};
use std::net::SocketAddr;

#[derive(Clone, Debug, PartialEq, Eq)]
pub enum Val {
    Int(i64),
    Bytes(Vec<u8>),
    List(Vec<Val>),
    /// Keys in the order given (the encoder does not sort; use `canon` for canonical order).
    Dict(Vec<(Vec<u8>, Val)>),
    /// Raw pre-encoded bytes spliced in verbatim (for malformed inputs).
    Raw(Vec<u8>),
}

impl Val {
    pub fn s(x: &str) -> Val {
        Val::Bytes(x.as_bytes().to_vec())
    }
    pub fn b(x: &[u8]) -> Val {
        Val::Bytes(x.to_vec())
    }
    pub fn dict(items: Vec<(&str, Val)>) -> Val {
        Val::Dict(items.into_iter().map(|(k, v)| (k.as_bytes().to_vec(), v)).collect())
    }
    pub fn encode(&self) -> Vec<u8> {
        let mut out = vec![];
        self.enc(&mut out);
        out
    }
    fn enc(&self, out: &mut Vec<u8>) {
        match self {
            Val::Int(i) => {
                out.push(b'i');
                out.extend_from_slice(i.to_string().as_bytes());
                out.push(b'e');
            }
            Val::Bytes(b) => {
                out.extend_from_slice(b.len().to_string().as_bytes());
                out.push(b':');
                out.extend_from_slice(b);
            }
            Val::List(l) => {
                out.push(b'l');
                for v in l {
                    v.enc(out);
                }
                out.push(b'e');
            }
            Val::Dict(d) => {
                out.push(b'd');
                for (k, v) in d {
                    out.extend_from_slice(k.len().to_string().as_bytes());
                    out.push(b':');
                    out.extend_from_slice(k);
                    v.enc(out);
                }
                out.push(b'e');
            }
            Val::Raw(r) => out.extend_from_slice(r),
        }
    }
    /// Canonical form: every dictionary sorted by raw key bytes.
    pub fn canon(&self) -> Val {
        match self {
            Val::List(l) => Val::List(l.iter().map(|v| v.canon()).collect()),
            Val::Dict(d) => {
                let mut d: Vec<_> = d.iter().map(|(k, v)| (k.clone(), v.canon())).collect();
                d.sort_by(|a, b| a.0.cmp(&b.0));
                Val::Dict(d)
            }
            other => other.clone(),
        }
    }
    pub fn get(&self, key: &str) -> Option<&Val> {
        match self {
            Val::Dict(d) => d.iter().find(|(k, _)| k == key.as_bytes()).map(|(_, v)| v),
            _ => None,
        }
    }
    pub fn get_mut(&mut self, key: &str) -> Option<&mut Val> {
        match self {
            Val::Dict(d) => d.iter_mut().find(|(k, _)| k == key.as_bytes()).map(|(_, v)| v),
            _ => None,
        }
    }
    pub fn bytes(&self) -> Option<&[u8]> {
        match self {
            Val::Bytes(b) => Some(b),
            _ => None,
        }
    }
}

/// Strict bencode parser (for datagrams emitted by the node). Returns None on any malformation or
/// trailing garbage.
pub fn parse(input: &[u8]) -> Option<Val> {
    let mut pos = 0;
    let v = parse_at(input, &mut pos, 0)?;
    if pos == input.len() {
        Some(v)
    } else {
        None
    }
}

fn parse_at(inp: &[u8], pos: &mut usize, depth: usize) -> Option<Val> {
    if depth > 64 {
        return None;
    }
    match *inp.get(*pos)? {
        b'i' => {
            let end = inp[*pos..].iter().position(|&c| c == b'e')? + *pos;
            let s = std::str::from_utf8(&inp[*pos + 1..end]).ok()?;
            let v: i64 = s.parse().ok()?;
            *pos = end + 1;
            Some(Val::Int(v))
        }
        b'l' => {
            *pos += 1;
            let mut l = vec![];
            while *inp.get(*pos)? != b'e' {
                l.push(parse_at(inp, pos, depth + 1)?);
            }
            *pos += 1;
            Some(Val::List(l))
        }
        b'd' => {
            *pos += 1;
            let mut d = vec![];
            while *inp.get(*pos)? != b'e' {
                let k = match parse_at(inp, pos, depth + 1)? {
                    Val::Bytes(b) => b,
                    _ => return None,
                };
                let v = parse_at(inp, pos, depth + 1)?;
                d.push((k, v));
            }
            *pos += 1;
            Some(Val::Dict(d))
        }
        b'0'..=b'9' => {
            let colon = inp[*pos..].iter().position(|&c| c == b':')? + *pos;
            let s = std::str::from_utf8(&inp[*pos..colon]).ok()?;
            let n: usize = s.parse().ok()?;
            let start = colon + 1;
            let end = start.checked_add(n)?;
            if end > inp.len() {
                return None;
            }
            *pos = end;
            Some(Val::Bytes(inp[start..end].to_vec()))
        }
        _ => None,
    }
}

pub fn compact_addr(a: &SocketAddr) -> Vec<u8> {
    let mut v = match a {
        SocketAddr::V4(a) => a.ip().octets().to_vec(),
        SocketAddr::V6(a) => a.ip().octets().to_vec(),
    };
    v.extend_from_slice(&a.port().to_be_bytes());
    v
}

pub fn compact_node(id: &[u8; 20], a: &SocketAddr) -> Vec<u8> {
    let mut v = id.to_vec();
    v.extend(compact_addr(a));
    v
}

pub fn want_val(w: &Option<Want>) -> Option<Val> {
    match w {
        None => None,
        Some(Want::V4) => Some(Val::List(vec![Val::s("n4")])),
        Some(Want::V6) => Some(Val::List(vec![Val::s("n6")])),
        Some(Want::Both) => Some(Val::List(vec![Val::s("n4"), Val::s("n6")])),
    }
}

/// Reference mapping message -> bencode value per BEP5/BEP32 (not yet in canonical key order).
pub fn message_val(m: &Message) -> Val {
    let t = Val::b(&m.transaction_id);
    match &m.body {
        MessageBody::Request(r) => {
            let (q, a) = match r {
                Request::Ping(p) => ("ping", vec![("id", Val::b(&<[u8; 20]>::from(p.id)))]),
                Request::FindNode(f) => {
                    let mut a = vec![
                        ("id", Val::b(&<[u8; 20]>::from(f.id))),
                        ("target", Val::b(&<[u8; 20]>::from(f.target))),
                    ];
                    if let Some(w) = want_val(&f.want) {
                        a.push(("want", w));
                    }
                    ("find_node", a)
                }
                Request::GetPeers(g) => {
                    let mut a = vec![
                        ("id", Val::b(&<[u8; 20]>::from(g.id))),
                        ("info_hash", Val::b(&<[u8; 20]>::from(g.info_hash))),
                    ];
                    if let Some(w) = want_val(&g.want) {
                        a.push(("want", w));
                    }
                    ("get_peers", a)
                }
                Request::AnnouncePeer(p) => {
                    let mut a = vec![
                        ("id", Val::b(&<[u8; 20]>::from(p.id))),
                        ("info_hash", Val::b(&<[u8; 20]>::from(p.info_hash))),
                        ("token", Val::b(&p.token)),
                    ];
                    match p.port {
                        Some(port) => a.push(("port", Val::Int(port as i64))),
                        None => {
                            a.push(("implied_port", Val::Int(1)));
                            a.push(("port", Val::Int(0)));
                        }
                    }
                    ("announce_peer", a)
                }
            };
            Val::dict(vec![("t", t), ("y", Val::s("q")), ("q", Val::s(q)), ("a", Val::dict(a))])
        }
        MessageBody::Response(r) => {
            let mut d = vec![("id", Val::b(&<[u8; 20]>::from(r.id)))];
            if !r.nodes_v4.is_empty() {
                let mut buf = vec![];
                for n in &r.nodes_v4 {
                    buf.extend(compact_node(&n.id.into(), &n.addr));
                }
                d.push(("nodes", Val::Bytes(buf)));
            }
            if !r.nodes_v6.is_empty() {
                let mut buf = vec![];
                for n in &r.nodes_v6 {
                    buf.extend(compact_node(&n.id.into(), &n.addr));
                }
                d.push(("nodes6", Val::Bytes(buf)));
            }
            if let Some(tok) = &r.token {
                d.push(("token", Val::b(tok)));
            }
            if !r.values.is_empty() {
                d.push(("values", Val::List(r.values.iter().map(|a| Val::Bytes(compact_addr(a))).collect())));
            }
            Val::dict(vec![("t", t), ("y", Val::s("r")), ("r", Val::dict(d))])
        }
        MessageBody::Error(e) => Val::dict(vec![
            ("t", t),
            ("y", Val::s("e")),
            ("e", Val::List(vec![Val::Int(e.code as i64), Val::Bytes(e.message.as_bytes().to_vec())])),
        ]),
    }
}

pub fn reference_encode(m: &Message) -> Vec<u8> {
    message_val(m).canon().encode()
}

//! Universal monitors over the wire log of any SimWorld execution.

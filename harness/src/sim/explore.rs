//! Deviation-bounded stateless exploration of SimWorld executions.
//!
//! A run takes a choice vector (prefix); beyond the prefix every choice point takes alternative 0
//! (the default environment answer). Level d holds all prefixes with exactly d deviations; levels
//! are completed in order 0, 1, 2, ... and the largest completed level is reported.

use crate::common::{hash64, par_map};
use super::Chooser;
use std::collections::HashSet;

pub struct PrefixChooser<'a> {
    pub prefix: &'a [usize],
    pub pos: usize,
    pub out_of_range: bool,
}

impl<'a> Chooser for PrefixChooser<'a> {
    fn choose(&mut self, _key: &str, alternatives: usize) -> usize {
        let c = if self.pos < self.prefix.len() { self.prefix[self.pos] } else { 0 };
        self.pos += 1;
        if c >= alternatives {
            self.out_of_range = true;
            return 0;
        }
        c
    }
}

pub struct RunOutcome {
    /// (key, alternatives, chosen) per choice point
    pub choices: Vec<(String, usize, usize)>,
    /// hash of the normalised observations of this run
    pub outcome_hash: u64,
    /// (signature, what)
    pub violations: Vec<(String, String)>,
    pub wire_events: u64,
    pub out_of_range: bool,
}

pub struct Summary {
    pub runs: u64,
    pub choice_points: u64,
    pub wire_events: u64,
    pub distinct_outcomes: u64,
    pub completed_bound: i64,
    pub capped: bool,
    /// (signature, what, choice vector)
    pub violations: Vec<(String, String, Vec<usize>)>,
    pub sample_vectors: Vec<Vec<usize>>,
    pub per_level_runs: Vec<u64>,
}

fn keys_hash(choices: &[(String, usize, usize)], n: usize) -> u64 {
    let mut h = 0u64;
    for (k, a, _) in choices.iter().take(n) {
        h = h.wrapping_mul(0x100000001b3) ^ hash64(k.as_bytes()) ^ (*a as u64);
    }
    h
}

pub fn explore(bound: usize, max_runs: u64, run_one: &(dyn Fn(&[usize]) -> RunOutcome + Sync)) -> Summary {
    explore_impl(bound, max_runs, run_one, true)
}

/// Same, running the executions of a level one after the other (for use inside an outer par_map).
pub fn explore_seq(bound: usize, max_runs: u64, run_one: &(dyn Fn(&[usize]) -> RunOutcome + Sync)) -> Summary {
    explore_impl(bound, max_runs, run_one, false)
}

fn explore_impl(bound: usize, max_runs: u64, run_one: &(dyn Fn(&[usize]) -> RunOutcome + Sync), parallel: bool) -> Summary {
    let mut sum = Summary {
        runs: 0,
        choice_points: 0,
        wire_events: 0,
        distinct_outcomes: 0,
        completed_bound: -1,
        capped: false,
        violations: vec![],
        sample_vectors: vec![],
        per_level_runs: vec![],
    };
    let mut outcomes: HashSet<u64> = HashSet::new();
    // (prefix, hash of the keys of the prefix positions as seen by the parent)
    let mut level: Vec<(Vec<usize>, Option<u64>)> = vec![(vec![], None)];
    for d in 0..=bound {
        if level.is_empty() {
            sum.completed_bound = bound as i64;
            break;
        }
        if sum.runs + level.len() as u64 > max_runs {
            sum.capped = true;
            break;
        }
        let one = |prefix: &Vec<usize>, expect: &Option<u64>| {
            let o = run_one(prefix);
            let diverged = o.out_of_range
                || o.choices.len() < prefix.len()
                || expect.map_or(false, |e| keys_hash(&o.choices, prefix.len()) != e)
                || o.choices.iter().zip(prefix.iter()).any(|((_, _, c), p)| c != p);
            (o, diverged)
        };
        let results: Vec<(RunOutcome, bool)> = if parallel {
            par_map(&level, |_, (prefix, expect)| one(prefix, expect))
        } else {
            level.iter().map(|(prefix, expect)| one(prefix, expect)).collect()
        };
        let mut next: Vec<(Vec<usize>, Option<u64>)> = vec![];
        for ((prefix, _), (o, diverged)) in level.iter().zip(results.into_iter()) {
            if diverged {
                eprintln!("machinery error: replay of choice prefix {:?} diverged (nondeterminism not owned)", prefix);
                std::process::exit(2);
            }
            sum.runs += 1;
            sum.choice_points += o.choices.len() as u64;
            sum.wire_events += o.wire_events;
            outcomes.insert(o.outcome_hash);
            let chosen: Vec<usize> = o.choices.iter().map(|c| c.2).collect();
            for (sig, what) in o.violations {
                if !sum.violations.iter().any(|(s, _, _)| *s == sig) {
                    sum.violations.push((sig, what, chosen.clone()));
                }
            }
            if sum.sample_vectors.len() < 4 && (sum.runs == 1 || sum.runs % 97 == 0) {
                let mut v = chosen.clone();
                while v.last() == Some(&0) {
                    v.pop();
                }
                sum.sample_vectors.push(v);
            }
            if d < bound {
                for i in prefix.len()..o.choices.len() {
                    for alt in 1..o.choices[i].1 {
                        let mut p: Vec<usize> = chosen[..i].to_vec();
                        p.push(alt);
                        let h = keys_hash(&o.choices, i + 1);
                        next.push((p, Some(h)));
                    }
                }
            }
        }
        sum.per_level_runs.push(level.len() as u64);
        sum.completed_bound = d as i64;
        level = next;
    }
    sum.distinct_outcomes = outcomes.len() as u64;
    sum
}

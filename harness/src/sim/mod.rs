//! Engine E1 — SimWorld: real MainlineDht nodes over an in-memory datagram network on a paused
//! single-thread tokio runtime. The harness *is* the network: it decides the fate of every
//! datagram (through a `Chooser`), delivers on a 1 ms grid, runs scripted peers and scripted API
//! calls and records everything with virtual timestamps.

pub mod explore;
pub mod krpc;
pub mod monitor;
pub mod peers;

use async_trait::async_trait;
use btdht::{InfoHash, MainlineDht, SocketTrait};
use futures_util::StreamExt;
use std::collections::{BTreeMap, HashMap, VecDeque};
use std::future::poll_fn;
use std::io;
use std::net::SocketAddr;
use std::sync::{Arc, Mutex};
use std::task::{Poll, Waker};
use std::time::Duration;
use tokio::sync::Notify;
use tokio::time::Instant;

pub use peers::{Peer, PeerCtx};

// ---------------------------------------------------------------------------------------------
// Wire

#[derive(Clone, Debug, PartialEq, Eq)]
pub enum Fate {
    /// deliver after this many ms (>= 1)
    Deliver(u64),
    Drop,
    /// deliver twice, after a and b ms
    Duplicate(u64, u64),
}

#[derive(Clone, Debug)]
pub struct Datagram {
    pub seq: usize,
    pub sent_ms: u64,
    pub src: SocketAddr,
    pub dst: SocketAddr,
    pub bytes: Vec<u8>,
    /// delivery instants (empty = dropped / destination gone)
    pub delivered_ms: Vec<u64>,
    pub fate: Option<Fate>,
    /// true if injected by the scenario (adversary), false if emitted by a node or scripted peer
    pub injected: bool,
    /// true when emitted by a real node
    pub from_real: bool,
}

#[derive(Clone, Copy, Debug, PartialEq, Eq)]
pub enum SendAnswer {
    Ok,
    Err,
    PendingOnce,
    /// the datagram leaves at once but send_to completes only after this many (virtual) ms
    Stall(u64),
}

struct Inbox {
    queue: VecDeque<(Vec<u8>, SocketAddr)>,
    waker: Option<Waker>,
    open: bool,
}

pub struct NetInner {
    start: Instant,
    outbox: Vec<usize>,
    pub log: Vec<Datagram>,
    inboxes: HashMap<SocketAddr, Inbox>,
    /// per real node: number of send_to calls so far
    send_calls: HashMap<SocketAddr, usize>,
    /// (node, k-th send call (0-based)) -> answer
    send_plan: HashMap<(SocketAddr, usize), SendAnswer>,
    /// destinations towards which every send fails (host unreachable)
    fail_dst: Vec<SocketAddr>,
    /// destinations towards which every send fails from the given instant (ms) on
    fail_dst_from: Vec<(SocketAddr, u64)>,
    /// a send towards this destination (first one at or after the instant) stalls for the given ms
    stall_dst: Vec<(SocketAddr, u64, u64)>,
    /// every send_to of a real node takes this long (virtual ms) before it completes
    send_delay_ms: u64,
}

impl NetInner {
    pub fn now_ms(&self) -> u64 {
        (Instant::now() - self.start).as_millis() as u64
    }
}

#[derive(Clone)]
pub struct Net {
    pub inner: Arc<Mutex<NetInner>>,
    notify: Arc<Notify>,
}

pub struct SimSocket {
    addr: SocketAddr,
    net: Net,
}

impl Drop for SimSocket {
    fn drop(&mut self) {
        if let Ok(mut n) = self.net.inner.lock() {
            if let Some(ib) = n.inboxes.get_mut(&self.addr) {
                ib.open = false;
                ib.queue.clear();
            }
        }
    }
}

#[async_trait]
impl SocketTrait for SimSocket {
    async fn send_to(&self, buf: &[u8], target: &SocketAddr) -> io::Result<()> {
        let answer = {
            let mut n = self.net.inner.lock().unwrap();
            let k = {
                let c = n.send_calls.entry(self.addr).or_insert(0);
                let k = *c;
                *c += 1;
                k
            };
            let mut answer = n.send_plan.get(&(self.addr, k)).copied().unwrap_or(SendAnswer::Ok);
            if n.fail_dst.contains(target) {
                answer = SendAnswer::Err;
            }
            let now = n.now_ms();
            if n.fail_dst_from.iter().any(|(a, t)| a == target && now >= *t) {
                answer = SendAnswer::Err;
            }
            if let Some(i) = n.stall_dst.iter().position(|(a, t, _)| a == target && now >= *t) {
                let (_, _, ms) = n.stall_dst.remove(i);
                answer = SendAnswer::Stall(ms);
            }
            if answer != SendAnswer::Err {
                let seq = n.log.len();
                let sent_ms = n.now_ms();
                n.log.push(Datagram {
                    seq,
                    sent_ms,
                    src: self.addr,
                    dst: *target,
                    bytes: buf.to_vec(),
                    delivered_ms: vec![],
                    fate: None,
                    injected: false,
                    from_real: true,
                });
                n.outbox.push(seq);
            }
            answer
        };
        self.net.notify.notify_one();
        let delay = self.net.inner.lock().unwrap().send_delay_ms;
        if delay > 0 && answer == SendAnswer::Ok {
            tokio::time::sleep(Duration::from_millis(delay)).await;
        }
        match answer {
            SendAnswer::Ok => Ok(()),
            SendAnswer::Err => Err(io::Error::other("simulated send failure")),
            SendAnswer::PendingOnce => {
                tokio::task::yield_now().await;
                Ok(())
            }
            SendAnswer::Stall(ms) => {
                tokio::time::sleep(Duration::from_millis(ms)).await;
                Ok(())
            }
        }
    }

    async fn recv_from(&self, buf: &mut [u8]) -> io::Result<(usize, SocketAddr)> {
        poll_fn(|cx| {
            let mut n = self.net.inner.lock().unwrap();
            let ib = n.inboxes.get_mut(&self.addr).expect("inbox");
            if let Some((bytes, from)) = ib.queue.pop_front() {
                if from == recv_error_marker() {
                    // an injected receive error (what recv_from reports after e.g. an ICMP error was queued)
                    let kind = match bytes.as_slice() {
                        b"ConnectionRefused" => io::ErrorKind::ConnectionRefused,
                        b"Interrupted" => io::ErrorKind::Interrupted,
                        b"Other" => io::ErrorKind::Other,
                        _ => io::ErrorKind::ConnectionReset,
                    };
                    return Poll::Ready(Err(io::Error::new(kind, "simulated receive error")));
                }
                let l = bytes.len().min(buf.len());
                buf[..l].copy_from_slice(&bytes[..l]);
                Poll::Ready(Ok((l, from)))
            } else {
                ib.waker = Some(cx.waker().clone());
                Poll::Pending
            }
        })
        .await
    }

    fn local_addr(&self) -> io::Result<SocketAddr> {
        Ok(self.addr)
    }
}

/// Source address marking an inbox entry that is a receive error, not a datagram.
pub fn recv_error_marker() -> SocketAddr {
    "0.0.0.0:0".parse().unwrap()
}

// ---------------------------------------------------------------------------------------------
// Scenario description

#[derive(Clone, Debug)]
pub struct NodeSpec {
    pub addr: SocketAddr,
    pub id: Option<InfoHash>,
    pub read_only: bool,
    pub announce_port: Option<u16>,
    pub contacts: Vec<SocketAddr>,
    pub routers: Vec<String>,
    /// virtual ms at which the node is started
    pub start_ms: u64,
}

#[derive(Clone, Debug)]
pub enum When {
    At(u64),
    /// `delay` ms after the API call tagged `tag` finished (stream ended / future resolved)
    After { tag: String, delay: u64 },
}

#[derive(Clone, Debug)]
pub enum Action {
    Search { node: usize, info_hash: InfoHash, announce: bool, tag: String },
    /// a search whose stream the caller drops `after_ms` after requesting it (0: at once, "fire and forget");
    /// items received until then are recorded, no End event is
    SearchDrop { node: usize, info_hash: InfoHash, announce: bool, tag: String, after_ms: u64 },
    Bootstrapped { node: usize, tag: String },
    /// bootstrapped() whose future is dropped after `cancel_after_ms` if still pending
    BootstrappedCancel { node: usize, tag: String, cancel_after_ms: u64 },
    GetState { node: usize, tag: String },
    /// one task calling get_state() `n` times back to back (results are not recorded)
    GetStateBurst { node: usize, n: usize },
    LoadContacts { node: usize, tag: String },
    LocalAddr { node: usize, tag: String },
    /// raw datagram from an arbitrary address to an arbitrary address
    Inject { from: SocketAddr, to: SocketAddr, bytes: Vec<u8>, tag: String },
    /// 161 find_node probes (target = node id with each bit flipped + the id itself) in the same ms
    ProbeTable { node: usize, from: SocketAddr, tag: String },
    /// tell a scripted peer something (behaviour switch)
    PeerCommand { peer: SocketAddr, cmd: String },
    /// the node's next recv_from returns an error of this kind (ConnectionReset, ConnectionRefused, Interrupted, Other)
    RecvError { node: usize, kind: String },
}

#[derive(Clone, Debug, PartialEq)]
pub enum ApiKind {
    Started,
    Item(SocketAddr),
    End,
    Resolved(bool),
    State { running: bool, bootstrapped: bool, good: usize, questionable: usize, buckets: usize },
    StateNone,
    Contacts { good: Vec<SocketAddr>, questionable: Vec<SocketAddr> },
    ContactsErr,
    LocalAddr(bool),
}

#[derive(Clone, Debug)]
pub struct ApiEvent {
    pub t_ms: u64,
    pub tag: String,
    pub kind: ApiKind,
}

/// Decides the fate of eligible datagrams and other environment answers. Index 0 is the default.
pub trait Chooser {
    /// `key` is a canonical description of the choice point (used to detect replay divergence).
    fn choose(&mut self, key: &str, alternatives: usize) -> usize;
}

pub struct DefaultChooser;
impl Chooser for DefaultChooser {
    fn choose(&mut self, _key: &str, _alternatives: usize) -> usize {
        0
    }
}

pub type Eligible = Arc<dyn Fn(&Datagram, &krpc::Parsed) -> bool + Send + Sync>;
pub type LinkLatency = Arc<dyn Fn(SocketAddr, SocketAddr) -> u64 + Send + Sync>;
/// Adversary: given the wire log so far, the current instant, the datagram at whose choice point
/// the injection happens and a menu index, produce one datagram (from, to, bytes) or nothing.
pub type Injector = Arc<dyn Fn(&[Datagram], u64, &Datagram, usize) -> Option<(SocketAddr, SocketAddr, Vec<u8>)> + Send + Sync>;

#[derive(Clone)]
pub struct Scenario {
    pub name: String,
    pub rng_seed: u64,
    pub nodes: Vec<NodeSpec>,
    pub actions: Vec<(When, Action)>,
    pub horizon_ms: u64,
    /// stop as soon as all tagged API calls listed here have finished (plus `linger_ms`)
    pub stop_after: Vec<String>,
    pub linger_ms: u64,
    /// default one-way latency per link
    pub link_latency: LinkLatency,
    /// alternatives offered for eligible datagrams (index 0 must be the default: None = link latency)
    pub fates: Vec<Option<Fate>>,
    pub eligible: Option<Eligible>,
    /// (node index, k-th send call) -> answer
    pub send_plan: Vec<(usize, usize, SendAnswer)>,
    /// LoadContacts + GetState sampling period for node 0.. (0 = off): (node, period, from, tagprefix)
    pub sample: Vec<(usize, u64, u64)>,
    /// adversary with a menu of `inject_menu` forgeries offered at every eligible datagram
    pub injector: Option<Injector>,
    pub inject_menu: usize,
    /// every send_to towards one of these addresses fails
    pub fail_dst: Vec<SocketAddr>,
    /// every send_to towards the address fails from the instant (ms) on
    pub fail_dst_from: Vec<(SocketAddr, u64)>,
    /// the first send_to towards the address at or after the instant completes only after the given ms
    pub stall_dst: Vec<(SocketAddr, u64, u64)>,
    /// every send_to of a real node takes this long (virtual ms)
    pub send_delay_ms: u64,
    /// datagrams sent by this address within [from, to) are lost (an outage of its uplink)
    pub blackhole: Vec<(SocketAddr, u64, u64)>,
}

impl Scenario {
    pub fn new(name: &str) -> Scenario {
        Scenario {
            name: name.to_string(),
            rng_seed: 1,
            nodes: vec![],
            actions: vec![],
            horizon_ms: 60_000,
            stop_after: vec![],
            linger_ms: 0,
            link_latency: Arc::new(|_, _| 20),
            fates: vec![None],
            eligible: None,
            send_plan: vec![],
            sample: vec![],
            injector: None,
            inject_menu: 0,
            fail_dst: vec![],
            fail_dst_from: vec![],
            stall_dst: vec![],
            send_delay_ms: 0,
            blackhole: vec![],
        }
    }
}

pub struct RunResult {
    pub wire: Vec<Datagram>,
    pub api: Vec<ApiEvent>,
    /// (key, alternatives, chosen) of every choice point, in order
    pub choices: Vec<(String, usize, usize)>,
    pub end_ms: u64,
    pub panics: Vec<String>,
    pub refresh_rounds: u64,
    pub max_timer_queue: usize,
    /// (t_ms, refresh rounds so far, timer queue length) samples, when sampling is on
    pub probe_samples: Vec<(u64, u64, usize)>,
    pub peers: Vec<Box<dyn Peer>>,
}

impl RunResult {
    pub fn finished(&self, tag: &str) -> Option<u64> {
        self.api
            .iter()
            .find(|e| e.tag == tag && matches!(e.kind, ApiKind::End | ApiKind::Resolved(_) | ApiKind::State { .. } | ApiKind::StateNone | ApiKind::Contacts { .. } | ApiKind::ContactsErr | ApiKind::LocalAddr(_)))
            .map(|e| e.t_ms)
    }
    pub fn started(&self, tag: &str) -> Option<u64> {
        self.api.iter().find(|e| e.tag == tag && e.kind == ApiKind::Started).map(|e| e.t_ms)
    }
    pub fn items(&self, tag: &str) -> Vec<(u64, SocketAddr)> {
        self.api
            .iter()
            .filter_map(|e| match (&e.kind, e.tag == tag) {
                (ApiKind::Item(a), true) => Some((e.t_ms, *a)),
                _ => None,
            })
            .collect()
    }
    pub fn resolved(&self, tag: &str) -> Option<(u64, bool)> {
        self.api.iter().find_map(|e| match (&e.kind, e.tag == tag) {
            (ApiKind::Resolved(b), true) => Some((e.t_ms, *b)),
            _ => None,
        })
    }
}

thread_local! {
    static PANICS: std::cell::RefCell<Vec<String>> = const { std::cell::RefCell::new(Vec::new()) };
}

pub fn install_quiet_panic_hook() {
    static ONCE: std::sync::Once = std::sync::Once::new();
    ONCE.call_once(|| {
        let default = std::panic::take_hook();
        std::panic::set_hook(Box::new(move |info| {
            let in_sim = IN_SIM.with(|c| c.get());
            if in_sim {
                let msg = format!("{info}");
                PANICS.with(|p| p.borrow_mut().push(msg));
            } else {
                default(info);
            }
        }));
    });
}

thread_local! {
    static IN_SIM: std::cell::Cell<bool> = const { std::cell::Cell::new(false) };
}

enum Ev {
    Deliver(usize),
    Act(usize),
    Sample(usize),
}

/// Execute one scenario with one chooser. Deterministic given (scenario, choices).
pub fn run(sc: &Scenario, peers: Vec<Box<dyn Peer>>, chooser: &mut dyn Chooser) -> RunResult {
    install_quiet_panic_hook();
    IN_SIM.with(|c| c.set(true));
    PANICS.with(|p| p.borrow_mut().clear());
    btdht::verif::probe::reset();
    btdht::verif::clock::set(None);
    let mut seed_bytes = [0u8; 32];
    seed_bytes[..8].copy_from_slice(&sc.rng_seed.to_le_bytes());
    let rt = tokio::runtime::Builder::new_current_thread()
        .enable_time()
        .start_paused(true)
        .rng_seed(tokio::runtime::RngSeed::from_bytes(&seed_bytes))
        .build()
        .expect("runtime");
    let res = rt.block_on(run_inner(sc, peers, chooser));
    drop(rt);
    IN_SIM.with(|c| c.set(false));
    res
}

async fn run_inner(sc: &Scenario, mut peers: Vec<Box<dyn Peer>>, chooser: &mut dyn Chooser) -> RunResult {
    let start = Instant::now();
    let net = Net {
        inner: Arc::new(Mutex::new(NetInner {
            start,
            outbox: vec![],
            log: vec![],
            inboxes: HashMap::new(),
            send_calls: HashMap::new(),
            send_plan: sc.send_plan.iter().map(|(n, k, a)| ((sc.nodes[*n].addr, *k), *a)).collect(),
            fail_dst: sc.fail_dst.clone(),
            fail_dst_from: sc.fail_dst_from.clone(),
            stall_dst: sc.stall_dst.clone(),
            send_delay_ms: sc.send_delay_ms,
        })),
        notify: Arc::new(Notify::new()),
    };
    let api: Arc<Mutex<Vec<ApiEvent>>> = Arc::new(Mutex::new(vec![]));
    let now_ms = move || (Instant::now() - start).as_millis() as u64;
    let peer_index: HashMap<SocketAddr, usize> = peers.iter().enumerate().map(|(i, p)| (p.addr(), i)).collect();

    let mut events: BTreeMap<(u64, u64), Ev> = BTreeMap::new();
    let mut ev_seq = 0u64;
    let mut push_ev = |events: &mut BTreeMap<(u64, u64), Ev>, t: u64, e: Ev| {
        ev_seq += 1;
        events.insert((t, ev_seq), e);
    };
    let mut dhts: Vec<Option<MainlineDht>> = (0..sc.nodes.len()).map(|_| None).collect();
    // pending (index) actions waiting for a tag
    let mut waiting: Vec<usize> = vec![];
    for (i, (w, _)) in sc.actions.iter().enumerate() {
        match w {
            When::At(t) => push_ev(&mut events, *t, Ev::Act(i)),
            When::After { .. } => waiting.push(i),
        }
    }
    for (si, (_, period, from)) in sc.sample.iter().enumerate() {
        if *period > 0 {
            push_ev(&mut events, *from, Ev::Sample(si));
        }
    }
    // node starts are events too (encoded as actions beyond the list)
    let mut node_start: Vec<(u64, usize)> = sc.nodes.iter().enumerate().map(|(i, n)| (n.start_ms, i)).collect();
    node_start.sort();

    let mut choices: Vec<(String, usize, usize)> = vec![];
    let mut probe_samples = vec![];
    let mut stop_at: Option<u64> = None;
    let mut sample_counter = 0u64;

    loop {
        let now = now_ms();
        // 0. start nodes that are due
        while let Some(&(t, i)) = node_start.first() {
            if t > now {
                break;
            }
            node_start.remove(0);
            let spec = &sc.nodes[i];
            net.inner.lock().unwrap().inboxes.insert(spec.addr, Inbox { queue: VecDeque::new(), waker: None, open: true });
            let mut b = MainlineDht::builder().set_read_only(spec.read_only);
            if let Some(id) = spec.id {
                b = b.set_node_id(id);
            }
            if let Some(p) = spec.announce_port {
                b = b.set_announce_port(p);
            }
            for c in &spec.contacts {
                b = b.add_node(*c);
            }
            for r in &spec.routers {
                b = b.add_router(r.clone());
            }
            let dht = b.start(SimSocket { addr: spec.addr, net: net.clone() }).expect("start");
            dhts[i] = Some(dht);
        }
        // 1. datagrams sent strictly before now get their fate
        let batch: Vec<usize> = {
            let mut n = net.inner.lock().unwrap();
            let mut b: Vec<usize> = vec![];
            let mut keep = vec![];
            for &seq in &n.outbox {
                if n.log[seq].sent_ms < now {
                    b.push(seq);
                } else {
                    keep.push(seq);
                }
            }
            n.outbox = keep;
            b
        };
        if !batch.is_empty() {
            let mut keyed: Vec<(String, usize)> = {
                let n = net.inner.lock().unwrap();
                batch
                    .iter()
                    .map(|&seq| {
                        let d = &n.log[seq];
                        let p = krpc::parse(&d.bytes);
                        (format!("{}|{}>{}|{}", d.sent_ms, d.src, d.dst, p.canon_key()), seq)
                    })
                    .collect()
            };
            keyed.sort_by(|a, b| a.0.cmp(&b.0)); // stable: emission order breaks ties
            for (key, seq) in keyed {
                let (d, parsed) = {
                    let n = net.inner.lock().unwrap();
                    let d = n.log[seq].clone();
                    let p = krpc::parse(&d.bytes);
                    (d, p)
                };
                let lost = sc.blackhole.iter().any(|(a, from, to)| *a == d.src && d.sent_ms >= *from && d.sent_ms < *to);
                let default = if lost { Fate::Drop } else { Fate::Deliver((sc.link_latency)(d.src, d.dst).max(1)) };
                let is_eligible = sc.fates.len() > 1 && sc.eligible.as_ref().map_or(true, |f| f(&d, &parsed));
                let fate = if is_eligible {
                    let pick = chooser.choose(&key, sc.fates.len());
                    choices.push((key.clone(), sc.fates.len(), pick));
                    sc.fates[pick.min(sc.fates.len() - 1)].clone().unwrap_or(default)
                } else {
                    default
                };
                let times: Vec<u64> = match &fate {
                    Fate::Deliver(l) => vec![d.sent_ms + (*l).max(1)],
                    Fate::Drop => vec![],
                    Fate::Duplicate(a, b) => vec![d.sent_ms + (*a).max(1), d.sent_ms + (*b).max(1)],
                };
                net.inner.lock().unwrap().log[seq].fate = Some(fate);
                for t in times {
                    push_ev(&mut events, t.max(now), Ev::Deliver(seq));
                }
                if let Some(inj) = &sc.injector {
                    let inj_eligible = sc.inject_menu > 0 && sc.eligible.as_ref().map_or(true, |f| f(&d, &parsed));
                    if inj_eligible {
                        let ikey = format!("inj|{key}");
                        let pick = chooser.choose(&ikey, sc.inject_menu + 1);
                        choices.push((ikey, sc.inject_menu + 1, pick));
                        if pick > 0 {
                            let forged = {
                                let n = net.inner.lock().unwrap();
                                inj(&n.log, now, &d, pick - 1)
                            };
                            if let Some((from, to, bytes)) = forged {
                                let mut n = net.inner.lock().unwrap();
                                let s = n.log.len();
                                n.log.push(Datagram { seq: s, sent_ms: now, src: from, dst: to, bytes, delivered_ms: vec![], fate: Some(Fate::Deliver(0)), injected: true, from_real: false });
                                drop(n);
                                push_ev(&mut events, now, Ev::Deliver(s));
                            }
                        }
                    }
                }
            }
        }
        // 2. release actions whose trigger finished
        if !waiting.is_empty() {
            let log = api.lock().unwrap();
            let mut still = vec![];
            for &i in &waiting {
                if let When::After { tag, delay } = &sc.actions[i].0 {
                    let done = log.iter().find(|e| {
                        &e.tag == tag && matches!(e.kind, ApiKind::End | ApiKind::Resolved(_) | ApiKind::State { .. } | ApiKind::StateNone | ApiKind::Contacts { .. } | ApiKind::ContactsErr | ApiKind::LocalAddr(_))
                    });
                    match done {
                        Some(e) => push_ev(&mut events, (e.t_ms + delay).max(now), Ev::Act(i)),
                        None => still.push(i),
                    }
                }
            }
            drop(log);
            waiting = still;
        }
        // 3. execute everything that is due
        loop {
            let key = match events.keys().next() {
                Some(k) if k.0 <= now => *k,
                _ => break,
            };
            let ev = events.remove(&key).unwrap();
            match ev {
                Ev::Deliver(seq) => {
                    let d = net.inner.lock().unwrap().log[seq].clone();
                    if let Some(&pi) = peer_index.get(&d.dst) {
                        net.inner.lock().unwrap().log[seq].delivered_ms.push(now);
                        let mut ctx = PeerCtx { now_ms: now, out: vec![] };
                        peers[pi].on_datagram(&mut ctx, &d.bytes, d.src);
                        let src = peers[pi].addr();
                        let mut n = net.inner.lock().unwrap();
                        for (to, bytes) in ctx.out {
                            let s = n.log.len();
                            n.log.push(Datagram { seq: s, sent_ms: now, src, dst: to, bytes, delivered_ms: vec![], fate: None, injected: false, from_real: false });
                            n.outbox.push(s);
                        }
                    } else {
                        let mut n = net.inner.lock().unwrap();
                        let delivered = match n.inboxes.get_mut(&d.dst) {
                            Some(ib) if ib.open => {
                                ib.queue.push_back((d.bytes.clone(), d.src));
                                if let Some(w) = ib.waker.take() {
                                    w.wake();
                                }
                                true
                            }
                            _ => false,
                        };
                        if delivered {
                            n.log[seq].delivered_ms.push(now);
                        }
                    }
                }
                Ev::Sample(si) => {
                    let (node, period, _) = sc.sample[si];
                    sample_counter += 1;
                    if let Some(dht) = dhts[node].clone() {
                        spawn_contacts(&api, dht.clone(), format!("sample{node}#{sample_counter}"), start);
                        spawn_state(&api, dht, format!("state{node}#{sample_counter}"), start);
                    }
                    probe_samples.push((now, btdht::verif::probe::refresh_rounds(), btdht::verif::probe::last_timer_queue_len()));
                    push_ev(&mut events, now + period, Ev::Sample(si));
                }
                Ev::Act(i) => match &sc.actions[i].1 {
                    Action::Search { node, info_hash, announce, tag } => {
                        if let Some(dht) = dhts[*node].clone() {
                            let api = api.clone();
                            let tag = tag.clone();
                            let (ih, ann) = (*info_hash, *announce);
                            api.lock().unwrap().push(ApiEvent { t_ms: now, tag: tag.clone(), kind: ApiKind::Started });
                            tokio::task::spawn(async move {
                                let mut s = dht.search(ih, ann);
                                drop(dht);
                                while let Some(a) = s.next().await {
                                    let t = (Instant::now() - start).as_millis() as u64;
                                    api.lock().unwrap().push(ApiEvent { t_ms: t, tag: tag.clone(), kind: ApiKind::Item(a) });
                                }
                                let t = (Instant::now() - start).as_millis() as u64;
                                api.lock().unwrap().push(ApiEvent { t_ms: t, tag, kind: ApiKind::End });
                            });
                        }
                    }
                    Action::SearchDrop { node, info_hash, announce, tag, after_ms } => {
                        if let Some(dht) = dhts[*node].clone() {
                            let api = api.clone();
                            let tag = tag.clone();
                            let (ih, ann, after) = (*info_hash, *announce, *after_ms);
                            api.lock().unwrap().push(ApiEvent { t_ms: now, tag: tag.clone(), kind: ApiKind::Started });
                            if after == 0 {
                                drop(dht.search(ih, ann));
                            } else {
                                tokio::task::spawn(async move {
                                    let mut s = dht.search(ih, ann);
                                    drop(dht);
                                    let deadline = tokio::time::Instant::now() + Duration::from_millis(after);
                                    while let Ok(Some(a)) = tokio::time::timeout_at(deadline, s.next()).await {
                                        let t = (Instant::now() - start).as_millis() as u64;
                                        api.lock().unwrap().push(ApiEvent { t_ms: t, tag: tag.clone(), kind: ApiKind::Item(a) });
                                    }
                                    drop(s);
                                });
                            }
                        }
                    }
                    Action::Bootstrapped { node, tag } => {
                        if let Some(dht) = dhts[*node].clone() {
                            let api = api.clone();
                            let tag = tag.clone();
                            api.lock().unwrap().push(ApiEvent { t_ms: now, tag: tag.clone(), kind: ApiKind::Started });
                            tokio::task::spawn(async move {
                                let r = dht.bootstrapped().await;
                                let t = (Instant::now() - start).as_millis() as u64;
                                api.lock().unwrap().push(ApiEvent { t_ms: t, tag, kind: ApiKind::Resolved(r) });
                            });
                        }
                    }
                    Action::BootstrappedCancel { node, tag, cancel_after_ms } => {
                        if let Some(dht) = dhts[*node].clone() {
                            let api = api.clone();
                            let tag = tag.clone();
                            let after = *cancel_after_ms;
                            api.lock().unwrap().push(ApiEvent { t_ms: now, tag: tag.clone(), kind: ApiKind::Started });
                            tokio::task::spawn(async move {
                                let r = tokio::time::timeout(Duration::from_millis(after), dht.bootstrapped()).await;
                                let t = (Instant::now() - start).as_millis() as u64;
                                if let Ok(r) = r {
                                    api.lock().unwrap().push(ApiEvent { t_ms: t, tag, kind: ApiKind::Resolved(r) });
                                }
                            });
                        }
                    }
                    Action::GetState { node, tag } => {
                        if let Some(dht) = dhts[*node].clone() {
                            api.lock().unwrap().push(ApiEvent { t_ms: now, tag: tag.clone(), kind: ApiKind::Started });
                            spawn_state(&api, dht, tag.clone(), start);
                        }
                    }
                    Action::GetStateBurst { node, n } => {
                        if let Some(dht) = dhts[*node].clone() {
                            let n = *n;
                            tokio::task::spawn(async move {
                                for _ in 0..n {
                                    let _ = dht.get_state().await;
                                }
                            });
                        }
                    }
                    Action::LoadContacts { node, tag } => {
                        if let Some(dht) = dhts[*node].clone() {
                            api.lock().unwrap().push(ApiEvent { t_ms: now, tag: tag.clone(), kind: ApiKind::Started });
                            spawn_contacts(&api, dht, tag.clone(), start);
                        }
                    }
                    Action::LocalAddr { node, tag } => {
                        if let Some(dht) = dhts[*node].clone() {
                            let api = api.clone();
                            let tag = tag.clone();
                            api.lock().unwrap().push(ApiEvent { t_ms: now, tag: tag.clone(), kind: ApiKind::Started });
                            tokio::task::spawn(async move {
                                let r = dht.local_addr().await.is_ok();
                                let t = (Instant::now() - start).as_millis() as u64;
                                api.lock().unwrap().push(ApiEvent { t_ms: t, tag, kind: ApiKind::LocalAddr(r) });
                            });
                        }
                    }
                    Action::RecvError { node, kind } => {
                        let mut n = net.inner.lock().unwrap();
                        if let Some(ib) = n.inboxes.get_mut(&sc.nodes[*node].addr) {
                            if ib.open {
                                ib.queue.push_back((kind.as_bytes().to_vec(), recv_error_marker()));
                                if let Some(w) = ib.waker.take() {
                                    w.wake();
                                }
                            }
                        }
                    }
                    Action::Inject { from, to, bytes, .. } => {
                        let mut n = net.inner.lock().unwrap();
                        let s = n.log.len();
                        n.log.push(Datagram { seq: s, sent_ms: now, src: *from, dst: *to, bytes: bytes.clone(), delivered_ms: vec![], fate: Some(Fate::Deliver(0)), injected: true, from_real: false });
                        drop(n);
                        // injected datagrams arrive at the instant of injection
                        push_ev(&mut events, now, Ev::Deliver(s));
                    }
                    Action::ProbeTable { node, from, tag } => {
                        if let Some(id) = sc.nodes[*node].id {
                            let to = sc.nodes[*node].addr;
                            let mut n = net.inner.lock().unwrap();
                            for k in 0..=160usize {
                                let target = if k == 160 { id } else { crate::props::table::flip_bit(id, k) };
                                let tid = format!("{tag}:{k:03}");
                                let bytes = krpc::find_node(tid.as_bytes(), &[0x77u8; 20], &target.into(), None);
                                let s = n.log.len();
                                n.log.push(Datagram { seq: s, sent_ms: now, src: *from, dst: to, bytes, delivered_ms: vec![], fate: Some(Fate::Deliver(0)), injected: true, from_real: false });
                                push_ev(&mut events, now, Ev::Deliver(s));
                            }
                        }
                    }
                    Action::PeerCommand { peer, cmd } => {
                        if let Some(&pi) = peer_index.get(peer) {
                            let mut ctx = PeerCtx { now_ms: now, out: vec![] };
                            peers[pi].command(cmd, &mut ctx);
                            let src = peers[pi].addr();
                            let mut n = net.inner.lock().unwrap();
                            for (to, bytes) in ctx.out {
                                let s = n.log.len();
                                n.log.push(Datagram { seq: s, sent_ms: now, src, dst: to, bytes, delivered_ms: vec![], fate: None, injected: false, from_real: false });
                                n.outbox.push(s);
                            }
                        }
                    }
                },
            }
        }
        // 4. stop conditions
        if stop_at.is_none() && !sc.stop_after.is_empty() {
            let log = api.lock().unwrap();
            let all = sc.stop_after.iter().all(|tag| {
                log.iter().any(|e| &e.tag == tag && matches!(e.kind, ApiKind::End | ApiKind::Resolved(_) | ApiKind::State { .. } | ApiKind::StateNone | ApiKind::Contacts { .. } | ApiKind::ContactsErr | ApiKind::LocalAddr(_)))
            });
            if all {
                stop_at = Some(now + sc.linger_ms);
            }
        }
        let horizon = stop_at.map_or(sc.horizon_ms, |s| s.min(sc.horizon_ms));
        if now >= horizon {
            break;
        }
        // 5. wait
        let outbox_pending = !net.inner.lock().unwrap().outbox.is_empty();
        let mut next = events.keys().next().map(|k| k.0).unwrap_or(u64::MAX);
        if let Some(&(t, _)) = node_start.first() {
            next = next.min(t);
        }
        next = next.min(horizon);
        if outbox_pending {
            next = next.min(now + 1);
        }
        let next = next.max(now);
        if next == now {
            // something became due at this very instant: let the other tasks run first
            tokio::task::yield_now().await;
            continue;
        }
        tokio::select! {
            biased;
            _ = net.notify.notified() => {
                // a node sent something: let the rest of this instant play out, then come back
                // (the batch is handled once the clock has moved past its send instant)
                tokio::task::yield_now().await;
            }
            _ = tokio::time::sleep_until(start + Duration::from_millis(next)) => {}
        }
    }
    // let recorder tasks log what is already resolved
    tokio::task::yield_now().await;
    let end_ms = now_ms();
    drop(dhts);
    let wire = std::mem::take(&mut net.inner.lock().unwrap().log);
    let api = std::mem::take(&mut *api.lock().unwrap());
    RunResult {
        wire,
        api,
        choices,
        end_ms,
        panics: PANICS.with(|p| p.borrow().clone()),
        refresh_rounds: btdht::verif::probe::refresh_rounds(),
        max_timer_queue: btdht::verif::probe::max_timer_queue_len(),
        probe_samples,
        peers,
    }
}

fn spawn_state(api: &Arc<Mutex<Vec<ApiEvent>>>, dht: MainlineDht, tag: String, start: Instant) {
    let api = api.clone();
    tokio::task::spawn(async move {
        let r = dht.get_state().await;
        let t = (Instant::now() - start).as_millis() as u64;
        let kind = match r {
            Some(s) => ApiKind::State { running: s.is_running, bootstrapped: s.bootstrapped, good: s.good_node_count, questionable: s.questionable_node_count, buckets: s.bucket_count },
            None => ApiKind::StateNone,
        };
        api.lock().unwrap().push(ApiEvent { t_ms: t, tag, kind });
    });
}

fn spawn_contacts(api: &Arc<Mutex<Vec<ApiEvent>>>, dht: MainlineDht, tag: String, start: Instant) {
    let api = api.clone();
    tokio::task::spawn(async move {
        let r = dht.load_contacts().await;
        let t = (Instant::now() - start).as_millis() as u64;
        let kind = match r {
            Ok((g, q)) => {
                let mut g: Vec<_> = g.into_iter().collect();
                let mut q: Vec<_> = q.into_iter().collect();
                g.sort();
                q.sort();
                ApiKind::Contacts { good: g, questionable: q }
            }
            Err(_) => ApiKind::ContactsErr,
        };
        api.lock().unwrap().push(ApiEvent { t_ms: t, tag, kind });
    });
}

/// Canonical lines of a run: wire events (sorted by send instant and canonical key, never by
/// emission order) and the API log (sorted by instant and tag).
pub fn trace_lines(res: &RunResult) -> Vec<String> {
    let mut w: Vec<String> = res
        .wire
        .iter()
        .map(|d| {
            let p = krpc::parse(&d.bytes);
            format!("{:010}|{}>{}|{}|{:?}", d.sent_ms, d.src, d.dst, p.canon_key(), d.delivered_ms)
        })
        .collect();
    w.sort();
    let mut a: Vec<String> = res.api.iter().map(|e| format!("{:010}|{}|{:?}", e.t_ms, e.tag, e.kind)).collect();
    a.sort();
    w.extend(a);
    w
}

pub fn trace_hash(res: &RunResult, extra: &str) -> u64 {
    let mut h = crate::common::hash64(extra.as_bytes());
    for l in trace_lines(res) {
        h = h.wrapping_mul(0x100000001b3) ^ crate::common::hash64(l.as_bytes());
    }
    h
}

//! Scripted peers: honest responders, silent / late / erroring contacts, adversaries.

use super::krpc::{self, Parsed};
use std::any::Any;
use std::net::SocketAddr;
use std::sync::Arc;

pub struct PeerCtx {
    pub now_ms: u64,
    pub out: Vec<(SocketAddr, Vec<u8>)>,
}

pub trait Peer: Send {
    fn addr(&self) -> SocketAddr;
    fn on_datagram(&mut self, ctx: &mut PeerCtx, bytes: &[u8], from: SocketAddr);
    fn command(&mut self, _cmd: &str, _ctx: &mut PeerCtx) {}
    fn as_any(&self) -> &dyn Any;
}

#[derive(Clone, Debug, PartialEq)]
pub enum Mode {
    Normal,
    Silent,
    /// answers every query with a KRPC error 201
    ErrorReply,
    /// answers with bytes that are not bencode
    Garbage,
    /// sends the request back unchanged
    Echo,
}

#[derive(Clone, Debug, PartialEq)]
pub enum NodeList {
    /// the 8 nodes of the universe truly closest to the asked id (excluding this peer and the requester)
    Closest8,
    /// a fixed list whatever is asked
    Fixed(Vec<([u8; 20], SocketAddr)>),
    /// the closest 7 plus these extra entries
    ClosestPlus(Vec<([u8; 20], SocketAddr)>),
    None,
}

pub fn xor_dist(a: &[u8; 20], b: &[u8; 20]) -> [u8; 20] {
    let mut o = [0u8; 20];
    for i in 0..20 {
        o[i] = a[i] ^ b[i];
    }
    o
}

pub struct Responder {
    pub addr: SocketAddr,
    pub id: [u8; 20],
    pub universe: Arc<Vec<([u8; 20], SocketAddr)>>,
    pub node_list: NodeList,
    /// peers held per info-hash (None key = any info-hash)
    pub values: Vec<SocketAddr>,
    /// always include a (possibly empty) values list
    pub token: Vec<u8>,
    pub mode: Mode,
    /// answers only inside these [from, to) windows (empty = always)
    pub up: Vec<(u64, u64)>,
    /// becomes silent from this instant on
    pub silent_from: Option<u64>,
    pub received: Vec<(u64, SocketAddr, Parsed)>,
    pub announced: Vec<(u64, SocketAddr, Parsed)>,
    pub tid_counter: u32,
    /// also list the requester itself among the closest nodes
    pub name_requester: bool,
    /// behaviour for get_peers / announce_peer only (bootstrap traffic is answered normally)
    pub search_mode: Option<Mode>,
    /// node list used for find_node answers when different from `node_list`
    pub find_node_list: Option<NodeList>,
    /// addresses this peer stops naming from the given instant on
    pub forget: Vec<(SocketAddr, u64)>,
    now_cache: u64,
    /// send every reply twice (same instant)
    pub duplicate_replies: bool,
    /// hand out a different token with every get_peers answer (all of them remain valid)
    pub rotate_tokens: bool,
    pub tokens_issued: Vec<Vec<u8>>,
    /// make every get_peers answer exactly this long by lengthening the token
    pub pad_reply_to: Option<usize>,
    /// get_peers for this info-hash is never answered (whatever the other settings say)
    pub silent_for: Option<[u8; 20]>,
    /// get_peers for this info-hash is answered with this node list and no values
    pub crowd: Option<([u8; 20], Vec<([u8; 20], SocketAddr)>)>,
    /// get_peers answers carry no token (a node that does not accept announces)
    pub no_token: bool,
    /// get_peers answers carry, after the real values, one entry of this many bytes (neither 6 nor 18)
    pub odd_value: Option<usize>,
}

impl Responder {
    pub fn new(addr: SocketAddr, id: [u8; 20], universe: Arc<Vec<([u8; 20], SocketAddr)>>) -> Responder {
        let mut token = b"tok-".to_vec();
        token.extend_from_slice(&id[..8]);
        Responder {
            addr,
            id,
            universe,
            node_list: NodeList::Closest8,
            values: vec![],
            token,
            mode: Mode::Normal,
            up: vec![],
            silent_from: None,
            received: vec![],
            announced: vec![],
            tid_counter: 0,
            name_requester: false,
            search_mode: None,
            find_node_list: None,
            forget: vec![],
            now_cache: 0,
            duplicate_replies: false,
            rotate_tokens: false,
            tokens_issued: vec![],
            pad_reply_to: None,
            silent_for: None,
            crowd: None,
            no_token: false,
            odd_value: None,
        }
    }

    fn is_up(&self, now: u64) -> bool {
        if let Some(t) = self.silent_from {
            if now >= t {
                return false;
            }
        }
        self.up.is_empty() || self.up.iter().any(|(a, b)| now >= *a && now < *b)
    }

    fn nodes_for(&self, target: &[u8; 20], from: SocketAddr) -> Vec<([u8; 20], SocketAddr)> {
        self.nodes_by(&self.node_list, target, from)
    }

    fn nodes_by(&self, list: &NodeList, target: &[u8; 20], from: SocketAddr) -> Vec<([u8; 20], SocketAddr)> {
        match list {
            NodeList::None => vec![],
            NodeList::Fixed(v) => v.clone(),
            NodeList::ClosestPlus(extra) => {
                let mut v = self.nodes_by(&NodeList::Closest8, target, from);
                v.truncate(8usize.saturating_sub(extra.len()));
                v.extend(extra.iter().cloned());
                v
            }
            NodeList::Closest8 => {
                let mut v: Vec<_> = self
                    .universe
                    .iter()
                    .filter(|(_, a)| *a != self.addr && (*a != from || self.name_requester))
                    .filter(|(_, a)| !self.forget.iter().any(|(f, t)| f == a && self.now_cache >= *t))
                    .cloned()
                    .collect();
                v.sort_by_key(|(id, _)| xor_dist(id, target));
                v.truncate(8);
                v
            }
        }
    }
}

impl Peer for Responder {
    fn addr(&self) -> SocketAddr {
        self.addr
    }
    fn as_any(&self) -> &dyn Any {
        self
    }
    fn command(&mut self, cmd: &str, ctx: &mut PeerCtx) {
        let parts: Vec<&str> = cmd.split_whitespace().collect();
        match parts.first().copied() {
            Some("silent") => self.mode = Mode::Silent,
            Some("normal") => self.mode = Mode::Normal,
            Some("ping") => {
                if let Some(to) = parts.get(1).and_then(|a| a.parse().ok()) {
                    self.tid_counter += 1;
                    let tid = format!("p{:03}", self.tid_counter);
                    ctx.out.push((to, krpc::ping(tid.as_bytes(), &self.id)));
                }
            }
            Some("get_peers") => {
                if let Some(to) = parts.get(1).and_then(|a| a.parse().ok()) {
                    self.tid_counter += 1;
                    let tid = format!("g{:03}", self.tid_counter);
                    ctx.out.push((to, krpc::get_peers(tid.as_bytes(), &self.id, &[0x3d; 20], None)));
                }
            }
            Some("announce_bad_token") => {
                if let Some(to) = parts.get(1).and_then(|a| a.parse().ok()) {
                    self.tid_counter += 1;
                    let tid = format!("a{:03}", self.tid_counter);
                    ctx.out.push((to, krpc::announce_peer(tid.as_bytes(), &self.id, &[0x3d; 20], b"this-is-not-a-token!", Some(4321))));
                }
            }
            Some("find_node") => {
                if let Some(to) = parts.get(1).and_then(|a| a.parse().ok()) {
                    self.tid_counter += 1;
                    let tid = format!("f{:03}", self.tid_counter);
                    ctx.out.push((to, krpc::find_node(tid.as_bytes(), &self.id, &self.id, None)));
                }
            }
            _ => {}
        }
    }
    fn on_datagram(&mut self, ctx: &mut PeerCtx, bytes: &[u8], from: SocketAddr) {
        let p = krpc::parse(bytes);
        self.now_cache = ctx.now_ms;
        self.received.push((ctx.now_ms, from, p.clone()));
        if !p.valid || p.y != 'q' || !self.is_up(ctx.now_ms) {
            return;
        }
        if p.q == "get_peers" && p.target.is_some() && p.target == self.silent_for {
            return;
        }
        if p.q == "get_peers" {
            if let Some((h, list)) = &self.crowd {
                if p.target == Some(*h) {
                    ctx.out.push((from, krpc::response(&p.tid, &self.id, Some(&self.token), None, list)));
                    return;
                }
            }
        }
        let mode = match (&self.search_mode, p.q.as_str()) {
            (Some(m), "get_peers") | (Some(m), "announce_peer") => m.clone(),
            _ => self.mode.clone(),
        };
        match mode {
            Mode::Silent => return,
            Mode::ErrorReply => {
                ctx.out.push((from, krpc::error(&p.tid, 201, "scripted error")));
                return;
            }
            Mode::Garbage => {
                ctx.out.push((from, b"this is not bencode at all".to_vec()));
                return;
            }
            Mode::Echo => {
                ctx.out.push((from, bytes.to_vec()));
                return;
            }
            Mode::Normal => {}
        }
        let reply = match p.q.as_str() {
            "ping" => krpc::response(&p.tid, &self.id, None, None, &[]),
            "find_node" => {
                let t = p.target.unwrap_or([0; 20]);
                let list = self.find_node_list.as_ref().unwrap_or(&self.node_list);
                krpc::response(&p.tid, &self.id, None, None, &self.nodes_by(list, &t, from))
            }
            "get_peers" => {
                let t = p.target.unwrap_or([0; 20]);
                let vals = if self.values.is_empty() { None } else { Some(self.values.as_slice()) };
                let tok = if self.rotate_tokens {
                    let mut tk = self.token.clone();
                    tk.extend_from_slice(format!("#{}", self.tokens_issued.len() + 1).as_bytes());
                    self.tokens_issued.push(tk.clone());
                    tk
                } else {
                    self.token.clone()
                };
                let nodes = self.nodes_for(&t, from);
                let mut reply = krpc::response(&p.tid, &self.id, if self.no_token { None } else { Some(&tok) }, vals, &nodes);
                if let Some(l) = self.odd_value {
                    let mut raw: Vec<Vec<u8>> = self.values.iter().map(crate::benc::compact_addr).collect();
                    raw.push((1..=l as u8).collect());
                    reply = krpc::response_raw(&p.tid, &self.id, if self.no_token { None } else { Some(&tok) }, Some(&raw), &nodes);
                }
                if let Some(target) = self.pad_reply_to {
                    let mut tk = tok.clone();
                    for _ in 0..4 {
                        if reply.len() == target {
                            break;
                        }
                        if reply.len() < target {
                            tk.extend(std::iter::repeat(b'+').take(target - reply.len()));
                        } else {
                            let over = reply.len() - target;
                            tk.truncate(tk.len().saturating_sub(over));
                        }
                        reply = krpc::response(&p.tid, &self.id, Some(&tk), vals, &nodes);
                    }
                    if self.rotate_tokens {
                        self.tokens_issued.push(tk.clone());
                    } else {
                        self.token = tk;
                    }
                }
                reply
            }
            "announce_peer" => {
                if p.token.as_deref() == Some(self.token.as_slice()) || self.tokens_issued.iter().any(|t| Some(t.as_slice()) == p.token.as_deref()) {
                    self.announced.push((ctx.now_ms, from, p.clone()));
                    krpc::response(&p.tid, &self.id, None, None, &[])
                } else {
                    krpc::error(&p.tid, 203, "bad token")
                }
            }
            _ => krpc::error(&p.tid, 204, "method unknown"),
        };
        if self.duplicate_replies {
            ctx.out.push((from, reply.clone()));
        }
        ctx.out.push((from, reply));
    }
}

/// A peer that only records what it receives.
pub struct Sink {
    pub addr: SocketAddr,
    pub received: Vec<(u64, SocketAddr, Vec<u8>)>,
}

impl Peer for Sink {
    fn addr(&self) -> SocketAddr {
        self.addr
    }
    fn as_any(&self) -> &dyn Any {
        self
    }
    fn on_datagram(&mut self, ctx: &mut PeerCtx, bytes: &[u8], from: SocketAddr) {
        self.received.push((ctx.now_ms, from, bytes.to_vec()));
    }
}

//! KRPC view of wire datagrams (independent parser) and builders for scripted traffic.

use crate::benc::{self, Val};
use crate::common::hex;
use std::net::{IpAddr, Ipv4Addr, Ipv6Addr, SocketAddr};

#[derive(Clone, Debug, Default)]
pub struct Parsed {
    /// strict bencode dictionary with t and y
    pub valid: bool,
    pub y: char,
    pub q: String,
    pub tid: Vec<u8>,
    pub id: Option<[u8; 20]>,
    /// `target` or `info_hash`
    pub target: Option<[u8; 20]>,
    pub token: Option<Vec<u8>>,
    pub has_values: bool,
    pub values: Vec<SocketAddr>,
    pub values_malformed: bool,
    pub nodes: Vec<([u8; 20], SocketAddr)>,
    pub nodes6: Vec<([u8; 20], SocketAddr)>,
    pub has_nodes: bool,
    pub has_nodes6: bool,
    pub port: Option<i64>,
    pub implied_port: Option<i64>,
    pub err_code: Option<i64>,
    pub want: Vec<String>,
}

fn id20(v: Option<&Val>) -> Option<[u8; 20]> {
    v.and_then(|v| v.bytes()).and_then(|b| <[u8; 20]>::try_from(b).ok())
}

pub fn decode_addr(b: &[u8]) -> Option<SocketAddr> {
    match b.len() {
        6 => Some(SocketAddr::new(IpAddr::V4(Ipv4Addr::new(b[0], b[1], b[2], b[3])), u16::from_be_bytes([b[4], b[5]]))),
        18 => {
            let mut o = [0u8; 16];
            o.copy_from_slice(&b[..16]);
            Some(SocketAddr::new(IpAddr::V6(Ipv6Addr::from(o)), u16::from_be_bytes([b[16], b[17]])))
        }
        _ => None,
    }
}

fn nodes_of(v: Option<&Val>, entry: usize) -> Vec<([u8; 20], SocketAddr)> {
    let mut out = vec![];
    if let Some(b) = v.and_then(|v| v.bytes()) {
        for c in b.chunks_exact(entry) {
            let mut id = [0u8; 20];
            id.copy_from_slice(&c[..20]);
            if let Some(a) = decode_addr(&c[20..]) {
                out.push((id, a));
            }
        }
    }
    out
}

pub fn parse(bytes: &[u8]) -> Parsed {
    let mut p = Parsed { y: '?', ..Default::default() };
    let v = match benc::parse(bytes) {
        Some(v @ Val::Dict(_)) => v,
        _ => return p,
    };
    let t = match v.get("t").and_then(|t| t.bytes()) {
        Some(t) => t.to_vec(),
        None => return p,
    };
    let y = match v.get("y").and_then(|y| y.bytes()) {
        Some(y) if y.len() == 1 => y[0] as char,
        _ => return p,
    };
    p.valid = true;
    p.tid = t;
    p.y = y;
    match y {
        'q' => {
            p.q = v.get("q").and_then(|q| q.bytes()).map(|b| String::from_utf8_lossy(b).to_string()).unwrap_or_default();
            if let Some(a) = v.get("a") {
                p.id = id20(a.get("id"));
                p.target = id20(a.get("target")).or(id20(a.get("info_hash")));
                p.token = a.get("token").and_then(|t| t.bytes()).map(|b| b.to_vec());
                p.port = match a.get("port") {
                    Some(Val::Int(i)) => Some(*i),
                    _ => None,
                };
                p.implied_port = match a.get("implied_port") {
                    Some(Val::Int(i)) => Some(*i),
                    _ => None,
                };
                if let Some(Val::List(w)) = a.get("want") {
                    p.want = w.iter().filter_map(|x| x.bytes()).map(|b| String::from_utf8_lossy(b).to_string()).collect();
                }
            }
        }
        'r' => {
            if let Some(r) = v.get("r") {
                p.id = id20(r.get("id"));
                p.token = r.get("token").and_then(|t| t.bytes()).map(|b| b.to_vec());
                if let Some(Val::List(vals)) = r.get("values") {
                    p.has_values = true;
                    for x in vals {
                        match x.bytes().and_then(decode_addr) {
                            Some(a) => p.values.push(a),
                            None => p.values_malformed = true,
                        }
                    }
                }
                p.has_nodes = r.get("nodes").is_some();
                p.has_nodes6 = r.get("nodes6").is_some();
                p.nodes = nodes_of(r.get("nodes"), 26);
                p.nodes6 = nodes_of(r.get("nodes6"), 38);
            }
        }
        'e' => {
            if let Some(Val::List(l)) = v.get("e") {
                if let Some(Val::Int(c)) = l.first() {
                    p.err_code = Some(*c);
                }
            }
        }
        _ => {}
    }
    p
}

impl Parsed {
    /// Canonical description without random material (tids, tokens).
    pub fn canon_key(&self) -> String {
        if !self.valid {
            return "x".into();
        }
        match self.y {
            'q' => format!("q:{}:{}", self.q, self.target.map(|t| hex(&t[..6])).unwrap_or_default()),
            'r' => format!(
                "r:{}:v{}:n{}:m{}:{}",
                self.id.map(|t| hex(&t[..6])).unwrap_or_default(),
                self.values.len(),
                self.nodes.len(),
                self.nodes6.len(),
                if self.token.is_some() { "tok" } else { "-" }
            ),
            'e' => format!("e:{}", self.err_code.unwrap_or(-1)),
            _ => "y?".into(),
        }
    }
    pub fn is_query(&self, name: &str) -> bool {
        self.valid && self.y == 'q' && self.q == name
    }
}

fn want_val(want: Option<&[&str]>) -> Option<Val> {
    want.map(|w| Val::List(w.iter().map(|s| Val::s(s)).collect()))
}

pub fn ping(tid: &[u8], id: &[u8; 20]) -> Vec<u8> {
    Val::dict(vec![("t", Val::b(tid)), ("y", Val::s("q")), ("q", Val::s("ping")), ("a", Val::dict(vec![("id", Val::b(id))]))]).canon().encode()
}

pub fn find_node(tid: &[u8], id: &[u8; 20], target: &[u8; 20], want: Option<&[&str]>) -> Vec<u8> {
    let mut a = vec![("id", Val::b(id)), ("target", Val::b(target))];
    if let Some(w) = want_val(want) {
        a.push(("want", w));
    }
    Val::dict(vec![("t", Val::b(tid)), ("y", Val::s("q")), ("q", Val::s("find_node")), ("a", Val::dict(a))]).canon().encode()
}

pub fn get_peers(tid: &[u8], id: &[u8; 20], info_hash: &[u8; 20], want: Option<&[&str]>) -> Vec<u8> {
    let mut a = vec![("id", Val::b(id)), ("info_hash", Val::b(info_hash))];
    if let Some(w) = want_val(want) {
        a.push(("want", w));
    }
    Val::dict(vec![("t", Val::b(tid)), ("y", Val::s("q")), ("q", Val::s("get_peers")), ("a", Val::dict(a))]).canon().encode()
}

pub fn announce_peer(tid: &[u8], id: &[u8; 20], info_hash: &[u8; 20], token: &[u8], port: Option<u16>) -> Vec<u8> {
    let mut a = vec![("id", Val::b(id)), ("info_hash", Val::b(info_hash)), ("token", Val::b(token))];
    match port {
        Some(p) => a.push(("port", Val::Int(p as i64))),
        None => {
            a.push(("implied_port", Val::Int(1)));
            a.push(("port", Val::Int(0)));
        }
    }
    Val::dict(vec![("t", Val::b(tid)), ("y", Val::s("q")), ("q", Val::s("announce_peer")), ("a", Val::dict(a))]).canon().encode()
}

pub fn response(
    tid: &[u8],
    id: &[u8; 20],
    token: Option<&[u8]>,
    values: Option<&[SocketAddr]>,
    nodes: &[([u8; 20], SocketAddr)],
) -> Vec<u8> {
    let raw: Option<Vec<Vec<u8>>> = values.map(|v| v.iter().map(benc::compact_addr).collect());
    response_raw(tid, id, token, raw.as_deref(), nodes)
}

/// The same with the entries of `values` given as raw byte strings (other clients' malformed entries).
pub fn response_raw(tid: &[u8], id: &[u8; 20], token: Option<&[u8]>, values: Option<&[Vec<u8>]>, nodes: &[([u8; 20], SocketAddr)]) -> Vec<u8> {
    let mut r = vec![("id", Val::b(id))];
    let mut n4 = vec![];
    let mut n6 = vec![];
    for (nid, a) in nodes {
        if a.is_ipv4() {
            n4.extend(benc::compact_node(nid, a));
        } else {
            n6.extend(benc::compact_node(nid, a));
        }
    }
    if !n4.is_empty() {
        r.push(("nodes", Val::Bytes(n4)));
    }
    if !n6.is_empty() {
        r.push(("nodes6", Val::Bytes(n6)));
    }
    if let Some(t) = token {
        r.push(("token", Val::b(t)));
    }
    if let Some(v) = values {
        r.push(("values", Val::List(v.iter().map(|a| Val::Bytes(a.clone())).collect())));
    }
    Val::dict(vec![("t", Val::b(tid)), ("y", Val::s("r")), ("r", Val::dict(r))]).canon().encode()
}

pub fn error(tid: &[u8], code: i64, msg: &str) -> Vec<u8> {
    Val::dict(vec![("t", Val::b(tid)), ("y", Val::s("e")), ("e", Val::List(vec![Val::Int(code), Val::s(msg)]))]).canon().encode()
}

/// announce_peer with arbitrary port / implied_port values (what other clients send)
pub fn announce_peer_raw(tid: &[u8], id: &[u8; 20], info_hash: &[u8; 20], token: &[u8], port: i64, implied_port: Option<i64>) -> Vec<u8> {
    let mut a = vec![("id", Val::b(id)), ("info_hash", Val::b(info_hash)), ("token", Val::b(token)), ("port", Val::Int(port))];
    if let Some(i) = implied_port {
        a.push(("implied_port", Val::Int(i)));
    }
    Val::dict(vec![("t", Val::b(tid)), ("y", Val::s("q")), ("q", Val::s("announce_peer")), ("a", Val::dict(a))]).canon().encode()
}

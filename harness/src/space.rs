//! Engine E2 — explicit-state breadth-first exploration of real objects.
//!
//! A state is whatever the property module bundles (real object + reference model + virtual now);
//! every transition calls the real methods under the thread-local virtual clock. States are
//! deduplicated on a canonical key computed from hook snapshots of the *implementation* state.
//! Levels are expanded in parallel; merging into the seen-set is sequential and deterministic.

use crate::common::threads;
use std::collections::HashSet;
use std::fmt::Debug;

pub enum Step<S> {
    /// Successor state and an outcome class (0..16) counted for the evidence.
    Next(S, u8),
    /// Event not enabled in this state.
    Disabled,
    /// The oracle failed on this transition.
    Violation { signature: String, what: String },
}

pub struct Found<E> {
    pub signature: String,
    pub what: String,
    pub init: usize,
    pub trace: Vec<E>,
}

pub struct BfsResult<E> {
    pub states: u64,
    pub transitions: u64,
    pub depth: u32,
    /// true if the frontier emptied (all reachable states within the alphabet were visited)
    pub closed: bool,
    pub capped: bool,
    pub classes: [u64; 16],
    pub violations: Vec<Found<E>>,
    pub sample_traces: Vec<(usize, Vec<E>)>,
}

pub struct Cfg {
    pub max_depth: u32,
    pub max_states: u64,
    pub max_violations: usize,
}

pub fn bfs<S, E>(
    inits: Vec<S>,
    events: &[E],
    key: &(dyn Fn(&S) -> u128 + Sync),
    step: &(dyn Fn(&S, &E) -> Step<S> + Sync),
    cfg: &Cfg,
) -> BfsResult<E>
where
    S: Clone + Send + Sync,
    E: Clone + Send + Sync + Debug,
{
    // nodes[i] = (parent index or u32::MAX + init index, event index)
    let mut nodes: Vec<(u32, u32)> = Vec::new();
    let mut seen: HashSet<u128> = HashSet::new();
    let mut frontier: Vec<(u32, S)> = Vec::new();
    for (i, s) in inits.into_iter().enumerate() {
        let k = key(&s);
        if seen.insert(k) {
            nodes.push((u32::MAX, i as u32));
            frontier.push(((nodes.len() - 1) as u32, s));
        }
    }
    let mut res = BfsResult {
        states: nodes.len() as u64,
        transitions: 0,
        depth: 0,
        closed: false,
        capped: false,
        classes: [0; 16],
        violations: vec![],
        sample_traces: vec![],
    };
    let trace_of = |nodes: &Vec<(u32, u32)>, mut idx: u32, last: Option<u32>| -> (usize, Vec<E>) {
        let mut evs: Vec<E> = vec![];
        if let Some(e) = last {
            evs.push(events[e as usize].clone());
        }
        loop {
            let (p, e) = nodes[idx as usize];
            if p == u32::MAX {
                evs.reverse();
                return (e as usize, evs);
            }
            evs.push(events[e as usize].clone());
            idx = p;
        }
    };
    let nthreads = threads();
    let mut depth = 0u32;
    while !frontier.is_empty() && depth < cfg.max_depth {
        depth += 1;
        let chunk = (frontier.len() + nthreads - 1) / nthreads;
        let chunk = chunk.max(1);
        type Out<S> = (Vec<(u32, u32, u128, S)>, [u64; 16], u64, Vec<(u32, u32, String, String)>);
        let outs: Vec<Out<S>> = std::thread::scope(|sc| {
            let handles: Vec<_> = frontier
                .chunks(chunk)
                .map(|part| {
                    sc.spawn(move || {
                        let mut succ = Vec::with_capacity(part.len() * 2);
                        let mut classes = [0u64; 16];
                        let mut transitions = 0u64;
                        let mut viols = vec![];
                        for (idx, s) in part {
                            for (ei, e) in events.iter().enumerate() {
                                match step(s, e) {
                                    Step::Next(n, c) => {
                                        transitions += 1;
                                        classes[(c & 15) as usize] += 1;
                                        let k = key(&n);
                                        succ.push((*idx, ei as u32, k, n));
                                    }
                                    Step::Disabled => {}
                                    Step::Violation { signature, what } => {
                                        transitions += 1;
                                        if viols.len() < 8 {
                                            viols.push((*idx, ei as u32, signature, what));
                                        }
                                    }
                                }
                            }
                        }
                        (succ, classes, transitions, viols)
                    })
                })
                .collect();
            handles.into_iter().map(|h| h.join().unwrap()).collect()
        });
        let mut next: Vec<(u32, S)> = Vec::new();
        for (succ, classes, transitions, viols) in outs {
            res.transitions += transitions;
            for i in 0..16 {
                res.classes[i] += classes[i];
            }
            for (idx, ei, signature, what) in viols {
                if res.violations.len() < cfg.max_violations
                    && !res.violations.iter().any(|v| v.signature == signature)
                {
                    let (init, trace) = trace_of(&nodes, idx, Some(ei));
                    res.violations.push(Found { signature, what, init, trace });
                }
            }
            for (p, ei, k, s) in succ {
                if res.capped {
                    break;
                }
                if seen.insert(k) {
                    nodes.push((p, ei));
                    next.push(((nodes.len() - 1) as u32, s));
                    if nodes.len() as u64 >= cfg.max_states {
                        res.capped = true;
                    }
                }
            }
        }
        res.depth = depth;
        res.states = nodes.len() as u64;
        if !next.is_empty() && res.sample_traces.len() < 6 {
            let pick = next.len() / 2;
            res.sample_traces.push(trace_of(&nodes, next[pick].0, None));
        }
        frontier = next;
        if res.capped {
            break;
        }
    }
    res.closed = frontier.is_empty() && !res.capped;
    res
}

// ---------------------------------------------------------------------------------------------
// Bounded depth-first exploration (states live only on the stack; for large states).

use std::collections::HashMap;
use std::sync::atomic::{AtomicBool, AtomicU64, Ordering};
use std::sync::Mutex;

pub struct DfsResult<E> {
    pub states: u64,
    pub transitions: u64,
    pub depth: u32,
    pub capped: bool,
    pub classes: [u64; 16],
    pub violations: Vec<Found<E>>,
    pub sample_traces: Vec<(usize, Vec<E>)>,
}

struct Shared<E> {
    seen: Vec<Mutex<HashMap<u128, u8>>>,
    states: AtomicU64,
    transitions: AtomicU64,
    classes: Vec<AtomicU64>,
    capped: AtomicBool,
    violations: Mutex<Vec<Found<E>>>,
    samples: Mutex<Vec<(usize, Vec<E>)>>,
}

fn dfs_rec<S, E>(
    sh: &Shared<E>,
    events: &[E],
    key: &(dyn Fn(&S) -> u128 + Sync),
    step: &(dyn Fn(&S, &E) -> Step<S> + Sync),
    cfg: &Cfg,
    init: usize,
    s: &S,
    remaining: u32,
    trace: &mut Vec<usize>,
) where
    S: Clone + Send + Sync,
    E: Clone + Send + Sync + Debug,
{
    if remaining == 0 || sh.capped.load(Ordering::Relaxed) {
        return;
    }
    for (ei, e) in events.iter().enumerate() {
        match step(s, e) {
            Step::Disabled => {}
            Step::Violation { signature, what } => {
                sh.transitions.fetch_add(1, Ordering::Relaxed);
                let mut v = sh.violations.lock().unwrap();
                let tr_len = trace.len() + 1;
                // keep the shortest trace per signature
                let pos = v.iter().position(|f| f.signature == signature);
                let better = match pos {
                    Some(p) => v[p].trace.len() > tr_len,
                    None => v.len() < cfg.max_violations,
                };
                if better {
                    let mut tr: Vec<E> = trace.iter().map(|&i| events[i].clone()).collect();
                    tr.push(e.clone());
                    let f = Found { signature, what, init, trace: tr };
                    match pos {
                        Some(p) => v[p] = f,
                        None => v.push(f),
                    }
                }
            }
            Step::Next(n, c) => {
                sh.transitions.fetch_add(1, Ordering::Relaxed);
                sh.classes[(c & 15) as usize].fetch_add(1, Ordering::Relaxed);
                let k = key(&n);
                let rem = (remaining - 1).min(255) as u8;
                let fresh = {
                    let mut m = sh.seen[(k as usize) % sh.seen.len()].lock().unwrap();
                    match m.get_mut(&k) {
                        Some(r) if *r >= rem => None,
                        Some(r) => {
                            *r = rem;
                            Some(false)
                        }
                        None => {
                            m.insert(k, rem);
                            Some(true)
                        }
                    }
                };
                if let Some(new) = fresh {
                    if new {
                        let st = sh.states.fetch_add(1, Ordering::Relaxed) + 1;
                        if st >= cfg.max_states {
                            sh.capped.store(true, Ordering::Relaxed);
                        }
                        if st % 50_001 == 0 {
                            let mut sm = sh.samples.lock().unwrap();
                            if sm.len() < 6 {
                                let mut tr: Vec<E> = trace.iter().map(|&i| events[i].clone()).collect();
                                tr.push(e.clone());
                                sm.push((init, tr));
                            }
                        }
                    }
                    trace.push(ei);
                    dfs_rec(sh, events, key, step, cfg, init, &n, remaining - 1, trace);
                    trace.pop();
                }
            }
        }
    }
}

/// Explore all event sequences of length <= cfg.max_depth from every initial state, pruning a
/// state only when it was already expanded with at least as much remaining depth (sound for the
/// depth bound). Work is split over (initial state, first event).
pub fn dfs<S, E>(
    inits: Vec<S>,
    events: &[E],
    key: &(dyn Fn(&S) -> u128 + Sync),
    step: &(dyn Fn(&S, &E) -> Step<S> + Sync),
    cfg: &Cfg,
) -> DfsResult<E>
where
    S: Clone + Send + Sync,
    E: Clone + Send + Sync + Debug,
{
    let sh: Shared<E> = Shared {
        seen: (0..256).map(|_| Mutex::new(HashMap::new())).collect(),
        states: AtomicU64::new(inits.len() as u64),
        transitions: AtomicU64::new(0),
        classes: (0..16).map(|_| AtomicU64::new(0)).collect(),
        capped: AtomicBool::new(false),
        violations: Mutex::new(vec![]),
        samples: Mutex::new(vec![]),
    };
    let depth = cfg.max_depth.min(255);
    // level 1 is expanded here so that the work items are (init, first event, state)
    let mut items: Vec<(usize, usize)> = vec![];
    for i in 0..inits.len() {
        for ei in 0..events.len() {
            items.push((i, ei));
        }
    }
    crate::common::par_map(&items, |_, &(i, ei)| {
        if depth == 0 {
            return;
        }
        let mut trace = vec![];
        dfs_first(&sh, events, key, step, cfg, i, &inits[i], depth, ei, &mut trace);
    });
    let mut sm = sh.samples.into_inner().unwrap();
    sm.truncate(6);
    DfsResult {
        states: sh.states.load(Ordering::Relaxed),
        transitions: sh.transitions.load(Ordering::Relaxed),
        depth,
        capped: sh.capped.load(Ordering::Relaxed),
        classes: {
            let mut c = [0u64; 16];
            for i in 0..16 {
                c[i] = sh.classes[i].load(Ordering::Relaxed);
            }
            c
        },
        violations: sh.violations.into_inner().unwrap(),
        sample_traces: sm,
    }
}

#[allow(clippy::too_many_arguments)]
fn dfs_first<S, E>(
    sh: &Shared<E>,
    events: &[E],
    key: &(dyn Fn(&S) -> u128 + Sync),
    step: &(dyn Fn(&S, &E) -> Step<S> + Sync),
    cfg: &Cfg,
    init: usize,
    s: &S,
    depth: u32,
    ei: usize,
    trace: &mut Vec<usize>,
) where
    S: Clone + Send + Sync,
    E: Clone + Send + Sync + Debug,
{
    // same as one iteration of dfs_rec's loop, restricted to event `ei`
    match step(s, &events[ei]) {
        Step::Disabled => {}
        Step::Violation { signature, what } => {
            sh.transitions.fetch_add(1, Ordering::Relaxed);
            let mut v = sh.violations.lock().unwrap();
            let pos = v.iter().position(|f| f.signature == signature);
            let better = match pos {
                Some(p) => v[p].trace.len() > 1,
                None => v.len() < cfg.max_violations,
            };
            if better {
                let f = Found { signature, what, init, trace: vec![events[ei].clone()] };
                match pos {
                    Some(p) => v[p] = f,
                    None => v.push(f),
                }
            }
        }
        Step::Next(n, c) => {
            sh.transitions.fetch_add(1, Ordering::Relaxed);
            sh.classes[(c & 15) as usize].fetch_add(1, Ordering::Relaxed);
            let k = key(&n);
            let rem = (depth - 1).min(255) as u8;
            let go = {
                let mut m = sh.seen[(k as usize) % sh.seen.len()].lock().unwrap();
                match m.get_mut(&k) {
                    Some(r) if *r >= rem => false,
                    Some(r) => {
                        *r = rem;
                        true
                    }
                    None => {
                        m.insert(k, rem);
                        sh.states.fetch_add(1, Ordering::Relaxed);
                        true
                    }
                }
            };
            if go {
                trace.push(ei);
                dfs_rec(sh, events, key, step, cfg, init, &n, depth - 1, trace);
                trace.pop();
            }
        }
    }
}

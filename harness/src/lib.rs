pub mod benc;
pub mod common;
pub mod props;
pub mod sim;
pub mod space;

pub mod common;
pub mod props;

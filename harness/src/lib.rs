pub mod benc;
pub mod common;
pub mod props;
pub mod space;

//! Shared plumbing: tiers, evidence files, violations / known findings, replay files, parallel map.

use serde_json::{json, Map, Value};
use std::collections::{BTreeMap, BTreeSet};
use std::path::PathBuf;
use std::sync::atomic::{AtomicUsize, Ordering};
use std::sync::Mutex;
use std::time::Instant;

pub const VERIF_ROOT: &str = "/verif";

#[derive(Clone, Copy, PartialEq, Eq, Debug)]
pub enum Tier {
    Quick,
    Thorough,
}

impl Tier {
    pub fn name(self) -> &'static str {
        match self {
            Tier::Quick => "quick",
            Tier::Thorough => "thorough",
        }
    }
    pub fn pick<T>(self, quick: T, thorough: T) -> T {
        match self {
            Tier::Quick => quick,
            Tier::Thorough => thorough,
        }
    }
}

pub fn seed() -> u64 {
    std::env::var("VERIF_SEED")
        .ok()
        .and_then(|s| s.parse::<u64>().ok())
        .unwrap_or(0)
}

pub fn threads() -> usize {
    std::env::var("VERIF_THREADS")
        .ok()
        .and_then(|s| s.parse().ok())
        .unwrap_or_else(|| {
            std::thread::available_parallelism()
                .map(|n| n.get())
                .unwrap_or(4)
                .min(16)
        })
}

/// One violation of a property found by a check.
#[derive(Clone, Debug)]
pub struct Violation {
    /// Stable signature: scenario class + failing input / call site. Known findings are matched on it.
    pub signature: String,
    /// Human readable one-liner.
    pub what: String,
    /// Everything needed to replay (engine, scenario parameters, choice vector / events / bytes).
    pub replay: Value,
}

/// Result of running one check.
pub struct Report {
    pub property: &'static str,
    pub level: &'static str,
    pub tier: Tier,
    pub started: Instant,
    pub coverage: Map<String, Value>,
    pub assumptions: Vec<String>,
    pub violations: Vec<Violation>,
    /// Observations that are deliberately not asserted (logged in the evidence).
    pub observations: Vec<String>,
}

impl Report {
    pub fn new(property: &'static str, level: &'static str, tier: Tier) -> Self {
        Report {
            property,
            level,
            tier,
            started: Instant::now(),
            coverage: Map::new(),
            assumptions: vec![],
            violations: vec![],
            observations: vec![],
        }
    }

    pub fn set(&mut self, key: &str, v: impl Into<Value>) {
        self.coverage.insert(key.to_string(), v.into());
    }

    pub fn add(&mut self, key: &str, n: u64) {
        let cur = self.coverage.get(key).and_then(|v| v.as_u64()).unwrap_or(0);
        self.coverage.insert(key.to_string(), json!(cur + n));
    }

    pub fn get(&self, key: &str) -> u64 {
        self.coverage.get(key).and_then(|v| v.as_u64()).unwrap_or(0)
    }

    pub fn sample(&mut self, v: Value) {
        let e = self
            .coverage
            .entry("samples".to_string())
            .or_insert_with(|| json!([]));
        if let Some(a) = e.as_array_mut() {
            if a.len() < 12 {
                a.push(v);
            }
        }
    }

    pub fn assume(&mut self, s: &str) {
        self.assumptions.push(s.to_string());
    }

    pub fn violation(&mut self, signature: impl Into<String>, what: impl Into<String>, replay: Value) {
        self.violations.push(Violation {
            signature: signature.into().replace(' ', "_"),
            what: what.into(),
            replay,
        });
    }
}

#[derive(Debug, Clone)]
pub struct KnownFinding {
    pub property: String,
    pub signature: String,
    pub text: String,
}

/// Parse /verif/known_findings.txt. Lines:
///   `known: property=<id> signature=<sig> <free text>`
///   `fixed: property=<id> <commit> <what failed>`   (suppresses nothing)
pub fn load_known_findings() -> Vec<KnownFinding> {
    let path = format!("{VERIF_ROOT}/known_findings.txt");
    let text = std::fs::read_to_string(path).unwrap_or_default();
    let mut out = vec![];
    for line in text.lines() {
        let line = line.trim();
        if let Some(rest) = line.strip_prefix("known:") {
            let mut property = String::new();
            let mut signature = String::new();
            for tok in rest.split_whitespace() {
                if let Some(p) = tok.strip_prefix("property=") {
                    property = p.to_string();
                } else if let Some(s) = tok.strip_prefix("signature=") {
                    signature = s.to_string();
                }
            }
            if !property.is_empty() && !signature.is_empty() {
                out.push(KnownFinding {
                    property,
                    signature,
                    text: rest.trim().to_string(),
                });
            }
        }
    }
    out
}

fn fnv(s: &str) -> u64 {
    let mut h: u64 = 0xcbf29ce484222325;
    for b in s.bytes() {
        h ^= b as u64;
        h = h.wrapping_mul(0x100000001b3);
    }
    h
}

pub fn hash64(bytes: &[u8]) -> u64 {
    let mut h: u64 = 0xcbf29ce484222325;
    for b in bytes {
        h ^= *b as u64;
        h = h.wrapping_mul(0x100000001b3);
    }
    h
}

/// Write evidence, print verdict lines, return the process exit code.
pub fn finish(mut report: Report) -> i32 {
    let known = load_known_findings();
    let mut by_sig: BTreeMap<String, Vec<&Violation>> = BTreeMap::new();
    for v in &report.violations {
        by_sig.entry(v.signature.clone()).or_default().push(v);
    }
    let mut exit = 0;
    let mut known_hit = BTreeSet::new();
    let mut new_sigs = vec![];
    std::fs::create_dir_all(format!("{VERIF_ROOT}/replays")).ok();
    for (sig, vs) in &by_sig {
        let is_known = known
            .iter()
            .any(|k| k.property == report.property && &k.signature == sig);
        let first = vs[0];
        if is_known {
            known_hit.insert(sig.clone());
            println!(
                "KNOWN-FINDING: property={} signature={} occurrences={} {}",
                report.property,
                sig,
                vs.len(),
                first.what
            );
        } else {
            let name = format!("{}-{:016x}.json", report.property, fnv(sig));
            let path = PathBuf::from(format!("{VERIF_ROOT}/replays/{name}"));
            let body = json!({
                "property": report.property,
                "signature": sig,
                "what": first.what,
                "occurrences": vs.len(),
                "replay": first.replay,
            });
            std::fs::write(&path, serde_json::to_string_pretty(&body).unwrap()).ok();
            println!("  violation: {}", first.what);
            println!(
                "VIOLATION property={} replay={}",
                report.property,
                path.display()
            );
            new_sigs.push(sig.clone());
            exit = 1;
        }
    }
    let wall = report.started.elapsed().as_secs_f64();
    // Make sure the generic keys exist.
    if !report.coverage.contains_key("samples") {
        report.coverage.insert("samples".into(), json!([]));
    }
    report.coverage.insert(
        "known_findings_hit".into(),
        json!(known_hit.iter().cloned().collect::<Vec<_>>()),
    );
    report
        .coverage
        .insert("new_violation_signatures".into(), json!(new_sigs));
    if !report.observations.is_empty() {
        report
            .coverage
            .insert("observations_not_asserted".into(), json!(report.observations));
    }
    let ev = json!({
        "property_id": report.property,
        "tier": report.tier.name(),
        "seed": seed(),
        "level": report.level,
        "coverage": Value::Object(report.coverage.clone()),
        "assumptions": report.assumptions,
        "wall_s": (wall * 1000.0).round() / 1000.0,
        "violations": new_sigs.len(),
    });
    std::fs::create_dir_all(format!("{VERIF_ROOT}/evidence")).ok();
    let path = format!("{VERIF_ROOT}/evidence/{}.json", report.property);
    if let Err(e) = std::fs::write(&path, serde_json::to_string_pretty(&ev).unwrap()) {
        eprintln!("machinery error: cannot write evidence {path}: {e}");
        return 2;
    }
    println!(
        "{} {} tier={} evaluations={} states={} transitions={} distinct={} wall={:.1}s verdict={}",
        report.property,
        report.level,
        report.tier.name(),
        report.get("evaluations"),
        report.get("states"),
        report.get("transitions"),
        report.get("distinct_nontrivial"),
        wall,
        if exit == 0 { "HOLDS" } else { "VIOLATED" }
    );
    exit
}

/// Run `f` over `items` on `threads()` worker threads; results in input order.
pub fn par_map<T: Sync, R: Send>(items: &[T], f: impl Fn(usize, &T) -> R + Sync) -> Vec<R> {
    let n = threads().min(items.len().max(1));
    let next = AtomicUsize::new(0);
    let out: Mutex<Vec<(usize, R)>> = Mutex::new(Vec::with_capacity(items.len()));
    std::thread::scope(|s| {
        for _ in 0..n {
            s.spawn(|| {
                let mut local = vec![];
                loop {
                    let i = next.fetch_add(1, Ordering::Relaxed);
                    if i >= items.len() {
                        break;
                    }
                    local.push((i, f(i, &items[i])));
                    if local.len() >= 64 {
                        out.lock().unwrap().append(&mut local);
                    }
                }
                out.lock().unwrap().append(&mut local);
            });
        }
    });
    let mut v = out.into_inner().unwrap();
    v.sort_by_key(|(i, _)| *i);
    v.into_iter().map(|(_, r)| r).collect()
}

/// Deterministic small PRNG for structured families keyed by VERIF_SEED (never used to decide a
/// verdict by sampling; only to pick "arbitrary" filler values).
pub struct SplitMix(pub u64);
impl SplitMix {
    pub fn next(&mut self) -> u64 {
        self.0 = self.0.wrapping_add(0x9E3779B97F4A7C15);
        let mut z = self.0;
        z = (z ^ (z >> 30)).wrapping_mul(0xBF58476D1CE4E5B9);
        z = (z ^ (z >> 27)).wrapping_mul(0x94D049BB133111EB);
        z ^ (z >> 31)
    }
    pub fn bytes20(&mut self) -> [u8; 20] {
        let mut out = [0u8; 20];
        for chunk in out.chunks_mut(8) {
            let v = self.next().to_be_bytes();
            chunk.copy_from_slice(&v[..chunk.len()]);
        }
        out
    }
}

pub fn hex(b: &[u8]) -> String {
    b.iter().map(|x| format!("{x:02x}")).collect()
}

pub fn unhex(s: &str) -> Vec<u8> {
    (0..s.len() / 2)
        .map(|i| u8::from_str_radix(&s[2 * i..2 * i + 2], 16).unwrap_or(0))
        .collect()
}

/// 128-bit key of a canonical field vector (two independent 64-bit mixes).
pub fn key128(fields: &[u64]) -> u128 {
    let mut a: u64 = 0xcbf29ce484222325;
    let mut b: u64 = 0x9E3779B97F4A7C15;
    for &f in fields {
        a = (a ^ f).wrapping_mul(0x100000001b3);
        a ^= a >> 29;
        b = b.wrapping_add(f).wrapping_mul(0xBF58476D1CE4E5B9);
        b ^= b >> 31;
        b = b.rotate_left(17);
    }
    ((a as u128) << 64) | b as u128
}

pub fn addr_hash(a: &std::net::SocketAddr) -> u64 {
    match a {
        std::net::SocketAddr::V4(v) => ((u32::from(*v.ip()) as u64) << 16) | v.port() as u64,
        std::net::SocketAddr::V6(v) => {
            let o = v.ip().octets();
            hash64(&o) ^ ((v.port() as u64) << 48) ^ 0x6666
        }
    }
}

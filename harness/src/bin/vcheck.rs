//! CLI: vcheck <ID> <quick|thorough> | vcheck <ID> --replay <file>
use vharness::common::*;
use vharness::props;

fn main() {
    let args: Vec<String> = std::env::args().collect();
    if args.len() < 3 {
        eprintln!("usage: vcheck <ID> <quick|thorough> | vcheck <ID> --replay <file>");
        std::process::exit(2);
    }
    let id = args[1].to_uppercase();
    if args[2] == "--replay" {
        let path = args.get(3).expect("replay file");
        let path = if path.starts_with('/') { path.clone() } else { format!("{VERIF_ROOT}/{path}") };
        let text = match std::fs::read_to_string(&path) {
            Ok(t) => t,
            Err(e) => {
                eprintln!("machinery error: cannot read replay {path}: {e}");
                std::process::exit(2);
            }
        };
        let v: serde_json::Value = serde_json::from_str(&text).expect("parse replay");
        let r = v.get("replay").cloned().unwrap_or(v);
        let code = props::replay(&id, &r);
        std::process::exit(code);
    }
    let tier = match args[2].as_str() {
        "quick" => Tier::Quick,
        "thorough" => Tier::Thorough,
        other => {
            eprintln!("unknown tier {other}");
            std::process::exit(2);
        }
    };
    let report = match props::run(&id, tier) {
        Some(r) => r,
        None => {
            eprintln!("unknown property {id}");
            std::process::exit(2);
        }
    };
    std::process::exit(finish(report));
}

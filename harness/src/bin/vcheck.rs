//! CLI: vcheck <ID> <quick|thorough> | vcheck <ID> --replay <file>
use vharness::common::*;
use vharness::props;

fn main() {
    let args: Vec<String> = std::env::args().collect();
    if args.len() < 3 {
        eprintln!("usage: vcheck <ID> <quick|thorough> | vcheck <ID> --replay <file>");
        std::process::exit(2);
    }
    let id = args[1].to_uppercase();
    if args[2] == "--replay" {
        let path = args.get(3).expect("replay file");
        let text = std::fs::read_to_string(path).expect("read replay");
        let v: serde_json::Value = serde_json::from_str(&text).expect("parse replay");
        let r = v.get("replay").cloned().unwrap_or(v);
        let code = match id.as_str() {
            "C20" => props::c20::replay(&r),
            _ => {
                eprintln!("no replay for {id}");
                2
            }
        };
        std::process::exit(code);
    }
    let tier = match args[2].as_str() {
        "quick" => Tier::Quick,
        "thorough" => Tier::Thorough,
        other => {
            eprintln!("unknown tier {other}");
            std::process::exit(2);
        }
    };
    let report = match id.as_str() {
        "C20" => props::c20::run(tier),
        _ => {
            eprintln!("unknown property {id}");
            std::process::exit(2);
        }
    };
    std::process::exit(finish(report));
}

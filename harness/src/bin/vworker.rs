//! Supervised worker for crash-isolated sweeps (C14).
//!
//! Protocol (line based, stdin -> stdout):
//!   T <alphabet> <len> <i0> <i1> <start> [careful]   all token sequences of `len` tokens whose first two
//!                                            tokens are i0,i1 (i1 ignored when len == 1)
//!   F <path> <from> <to> [careful]           records [from,to) of a file of u32-LE length-prefixed inputs
//!   N <path> <from> <to> [careful]           node sweep: records are datagram sequences (see vharness::props::c14)
//! Reply: `R <count> <ok> <err> <panics> <max_alloc> <max_total> <hex of worst input> <hex of first panicking input>`
//! In careful mode `I <index>` is printed and flushed before every input so that the supervisor
//! knows which input killed the worker.
//! Every input is decoded on a thread with a 2 MiB stack (tokio's default worker stack size), under a
//! 1 GiB address-space limit, with a counting allocator.

use std::alloc::{GlobalAlloc, Layout, System};
use std::io::{BufRead, Write};
use std::sync::atomic::{AtomicUsize, Ordering};

struct Counting;
static MAX_ONE: AtomicUsize = AtomicUsize::new(0);
static TOTAL: AtomicUsize = AtomicUsize::new(0);

unsafe impl GlobalAlloc for Counting {
    unsafe fn alloc(&self, l: Layout) -> *mut u8 {
        MAX_ONE.fetch_max(l.size(), Ordering::Relaxed);
        TOTAL.fetch_add(l.size(), Ordering::Relaxed);
        System.alloc(l)
    }
    unsafe fn dealloc(&self, p: *mut u8, l: Layout) {
        System.dealloc(p, l)
    }
    unsafe fn alloc_zeroed(&self, l: Layout) -> *mut u8 {
        MAX_ONE.fetch_max(l.size(), Ordering::Relaxed);
        TOTAL.fetch_add(l.size(), Ordering::Relaxed);
        System.alloc_zeroed(l)
    }
    unsafe fn realloc(&self, p: *mut u8, l: Layout, new: usize) -> *mut u8 {
        MAX_ONE.fetch_max(new, Ordering::Relaxed);
        TOTAL.fetch_add(new.saturating_sub(l.size()), Ordering::Relaxed);
        System.realloc(p, l, new)
    }
}

#[global_allocator]
static A: Counting = Counting;

#[derive(Default)]
struct Tally {
    count: u64,
    ok: u64,
    err: u64,
    panics: u64,
    max_alloc: usize,
    max_total: usize,
    worst: Vec<u8>,
    first_panic: Vec<u8>,
}

/// progress marker for the watchdog (index of the input being processed, bumped per input)
pub static PROGRESS: std::sync::atomic::AtomicU64 = std::sync::atomic::AtomicU64::new(0);
pub static CURRENT: std::sync::atomic::AtomicU64 = std::sync::atomic::AtomicU64::new(0);

fn one(input: &[u8], t: &mut Tally) {
    PROGRESS.fetch_add(1, Ordering::Relaxed);
    MAX_ONE.store(0, Ordering::Relaxed);
    TOTAL.store(0, Ordering::Relaxed);
    let r = std::panic::catch_unwind(|| btdht::message::Message::decode(input).is_ok());
    let (m, tot) = (MAX_ONE.load(Ordering::Relaxed), TOTAL.load(Ordering::Relaxed));
    t.count += 1;
    match r {
        Ok(true) => t.ok += 1,
        Ok(false) => t.err += 1,
        Err(_) => {
            t.panics += 1;
            if t.first_panic.is_empty() {
                t.first_panic = input.to_vec();
            }
        }
    }
    if m > t.max_alloc || (m == t.max_alloc && tot > t.max_total) {
        t.worst = input.to_vec();
    }
    t.max_alloc = t.max_alloc.max(m);
    t.max_total = t.max_total.max(tot);
}

fn hexs(b: &[u8]) -> String {
    if b.is_empty() {
        return "-".into();
    }
    b.iter().map(|x| format!("{x:02x}")).collect()
}

fn mark(careful: bool, idx: u64) {
    CURRENT.store(idx, Ordering::Relaxed);
    if careful {
        let mut o = std::io::stdout().lock();
        let _ = writeln!(o, "I {idx}");
        let _ = o.flush();
    }
}

fn job(line: &str) -> String {
    let parts: Vec<&str> = line.split_whitespace().collect();
    let careful = parts.last() == Some(&"careful");
    let mut t = Tally::default();
    match parts.first().copied() {
        Some("T") => {
            let alpha = vharness::props::c14::alphabet(parts[1]);
            let len: usize = parts[2].parse().unwrap();
            let i0: usize = parts[3].parse().unwrap();
            let i1: usize = parts[4].parse().unwrap();
            let start: u64 = parts.get(5).and_then(|s| s.parse().ok()).unwrap_or(0);
            let n = alpha.len();
            let mut idx = vec![0usize; len];
            idx[0] = i0;
            if len > 1 {
                idx[1] = i1;
            }
            let fixed = len.min(2);
            // position the odometer at `start`
            let mut rest = start;
            for p in (fixed..len).rev() {
                idx[p] = (rest % n as u64) as usize;
                rest /= n as u64;
            }
            if rest > 0 {
                return "R 0 0 0 0 0 0 - -".into();
            }
            let mut buf: Vec<u8> = Vec::with_capacity(256);
            let mut k = start;
            'outer: loop {
                buf.clear();
                for &i in &idx {
                    buf.extend_from_slice(&alpha[i]);
                }
                mark(careful, k);
                one(&buf, &mut t);
                k += 1;
                // increment the free positions
                let mut p = len;
                loop {
                    if p == fixed {
                        break 'outer;
                    }
                    p -= 1;
                    idx[p] += 1;
                    if idx[p] < n {
                        break;
                    }
                    idx[p] = 0;
                }
            }
        }
        Some("F") => {
            use std::io::{Read, Seek, SeekFrom};
            let from: u64 = parts[2].parse().unwrap();
            let to: u64 = parts[3].parse().unwrap();
            let off: u64 = parts.get(4).and_then(|s| s.strip_prefix('@')).and_then(|s| s.parse().ok()).expect("byte offset");
            let mut f = std::io::BufReader::new(std::fs::File::open(parts[1]).expect("open input file"));
            f.seek(SeekFrom::Start(off)).expect("seek");
            let mut k = from;
            let mut len4 = [0u8; 4];
            let mut rec: Vec<u8> = Vec::with_capacity(2048);
            while k < to {
                if f.read_exact(&mut len4).is_err() {
                    break;
                }
                let l = u32::from_le_bytes(len4) as usize;
                rec.resize(l, 0);
                if f.read_exact(&mut rec).is_err() {
                    break;
                }
                mark(careful, k);
                one(&rec, &mut t);
                k += 1;
            }
        }
        Some("N") => {
            return vharness::props::c14::node_job(parts[1], parts[2].parse().unwrap(), parts[3].parse().unwrap(), careful);
        }
        _ => return "E bad job".into(),
    }
    format!(
        "R {} {} {} {} {} {} {} {}",
        t.count,
        t.ok,
        t.err,
        t.panics,
        t.max_alloc,
        t.max_total,
        hexs(&t.worst),
        hexs(&t.first_panic)
    )
}

fn main() {
    unsafe {
        let lim = libc::rlimit { rlim_cur: 1 << 30, rlim_max: 1 << 30 };
        libc::setrlimit(libc::RLIMIT_AS, &lim);
    }
    std::panic::set_hook(Box::new(|_| {}));
    // watchdog: an input on which the process burns 20 s of CPU time without finishing (or 300 s of wall-clock
    // time, for a hang that does not spin) is a hang. CPU time, so that a loaded machine or a slow disk
    // (loading the records file) cannot look like one.
    std::thread::spawn(|| {
        fn cpu_ms() -> u64 {
            let mut ts = libc::timespec { tv_sec: 0, tv_nsec: 0 };
            unsafe {
                libc::clock_gettime(libc::CLOCK_PROCESS_CPUTIME_ID, &mut ts);
            }
            ts.tv_sec as u64 * 1000 + ts.tv_nsec as u64 / 1_000_000
        }
        let mut last = (u64::MAX, 0u32, cpu_ms());
        loop {
            std::thread::sleep(std::time::Duration::from_secs(1));
            let p = PROGRESS.load(Ordering::Relaxed) + vharness::props::c14::NODE_PROGRESS.load(Ordering::Relaxed);
            if BUSY.load(Ordering::Relaxed) == 0 {
                last = (p, 0, cpu_ms());
                continue;
            }
            if p == last.0 {
                last.1 += 1;
                if cpu_ms().saturating_sub(last.2) >= 20_000 || last.1 >= 300 {
                    let k = CURRENT.load(Ordering::Relaxed).max(vharness::props::c14::NODE_CURRENT.load(Ordering::Relaxed));
                    let mut o = std::io::stdout().lock();
                    let _ = writeln!(o, "H {k}");
                    let _ = o.flush();
                    std::process::exit(3);
                }
            } else {
                last = (p, 0, cpu_ms());
            }
        }
    });
    let stdin = std::io::stdin();
    for line in stdin.lock().lines() {
        let line = match line {
            Ok(l) => l,
            Err(_) => break,
        };
        if line.trim().is_empty() {
            continue;
        }
        let l2 = line.clone();
        BUSY.store(1, Ordering::Relaxed);
        let h = std::thread::Builder::new()
            .stack_size(2 << 20)
            .spawn(move || job(&l2))
            .expect("spawn");
        let reply = match h.join() {
            Ok(r) => r,
            Err(_) => "E job thread panicked".to_string(),
        };
        BUSY.store(0, Ordering::Relaxed);
        let mut o = std::io::stdout().lock();
        let _ = writeln!(o, "{reply}");
        let _ = o.flush();
    }
}

static BUSY: std::sync::atomic::AtomicU64 = std::sync::atomic::AtomicU64::new(0);

#!/usr/bin/env python3
"""Regenerate the table of mutants/RESULTS.md from seeded/*/meta.json (the prose above the table is kept)."""
import glob, json, os
p = "/verif/mutants/RESULTS.md"
head = []
for l in open(p):
    if l.startswith("| seeded change |"):
        break
    head.append(l)
rows = ["| seeded change | what it does | what it needs to manifest | detected by (quick tier) | ran but silent |\n", "|---|---|---|---|---|\n"]
def cell(s):
    return (s or "").replace("|", "/").replace("\n", " ")[:300]
for d in sorted(glob.glob("/verif/seeded/C*-*")):
    m = json.load(open(d + "/meta.json"))
    det = m.get("detected_by", [])
    ran = m.get("checks_run_against_it", {})
    silent = sorted(c for c, r in ran.items() if r.get("exit") != 1)
    rows.append(f"| {os.path.basename(d)} | {cell(m.get('summary'))} | {cell(m.get('needs'))} | {', '.join(det) if det else '**none**'} | {', '.join(silent)} |\n")
open(p, "w").write("".join(head) + "".join(rows))
print(len(rows) - 2, "changes")

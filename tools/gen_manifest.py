#!/usr/bin/env python3
"""Regenerates /verif/MANIFEST.json from the table below (kept in one place so it stays valid)."""
import json, subprocess, sys

CHECKS = {
 "C20": dict(engine="E3-enum", category="exploration", design="§3 C20",
   text="Bounded-exhaustive enumeration of the real InfoHash::from_ip: the complete IPv4 relevant-bit space (2^21 addresses quick, all 2^32 thorough) x all 8 values of the internal 3 random bits, and structured IPv6 families, each draw validated by an independent bitwise CRC32-C BEP42 validator. Exhaustive over IPv4, bounded over IPv6.",
   note="Trusts the harness's own BEP42 validator (self-checked against the five published BEP42 vectors and the CRC32-C check value). IPv6 is bounded to the stated families.",
   technique="bounded-exhaustive input enumeration of the real function against an independent reference"),
}

ALL = ["C%02d" % i for i in range(1, 21)]
PENDING_REASON = "check not built yet in this revision of /verif (construction in progress, see DESIGN.md §7a); no claim is made"

def main():
    hooks = subprocess.run(["git", "-C", "/repo", "log", "--format=%h %s"], capture_output=True, text=True).stdout.splitlines()
    hook_commits = [l.split()[0] for l in hooks if l.split(" ", 1)[1].startswith("verif hook:")]
    checks = []
    for pid in ALL:
        if pid not in CHECKS:
            continue
        c = CHECKS[pid]
        checks.append({
            "property_id": pid,
            "quick_cmd": f"./check {pid} quick",
            "thorough_cmd": f"./check {pid} thorough",
            "evidence_file": f"/verif/evidence/{pid}.json",
            "replay_cmd_template": f"./check {pid} --replay {{path}}",
            "engine": c["engine"],
            "level_claimed": {"category": c["category"], "text": c["text"], "design_ref": c["design"]},
            "level_note": c["note"],
            "technique": c["technique"],
        })
    manifest = {
        "version": 1,
        "setup_cmd": "./check --build",
        "hooks": {
            "guard": "cargo feature `verif` of btdht (Cargo.toml [features] verif)",
            "enable": "the harness crate /verif/harness depends on btdht by path with features=[\"verif\"]; every ./check rebuilds it from /repo's working tree (cargo build --release --offline, RUSTFLAGS=--cfg tokio_unstable for the harness build only)",
            "baseline_off_cmd": "cd /repo && cargo test --workspace --no-fail-fast --offline",
            "source_commits": hook_commits,
            "add_only": True,
        },
        "engines": [
            {"name": "E1-simworld", "path": "/verif/harness/src/sim", "kind_free_text": "stateless deviation-bounded exploration of real MainlineDht nodes over an in-memory SocketTrait network on a paused single-thread tokio runtime", "serves_properties": [p for p in ALL if p in CHECKS and CHECKS[p]["engine"].startswith("E1")]},
            {"name": "E2-space", "path": "/verif/harness/src/space.rs", "kind_free_text": "explicit-state BFS over real TokenStore/AnnounceStorage/RoutingTable/Node/id generators under a thread-local virtual clock, deduplicated on hook snapshots of the implementation state", "serves_properties": [p for p in ALL if p in CHECKS and CHECKS[p]["engine"].startswith("E2")]},
            {"name": "E3-enum", "path": "/verif/harness/src/props", "kind_free_text": "bounded-exhaustive input enumeration of real pure functions against independent reference implementations", "serves_properties": [p for p in ALL if p in CHECKS and CHECKS[p]["engine"].startswith("E3")]},
        ],
        "checks": checks,
        "not_applicable": [{"property_id": p, "reason": PENDING_REASON} for p in ALL if p not in CHECKS],
        "notes": "See DESIGN.md. Exit codes of every check: 0 held (KNOWN-FINDING lines for recorded findings), 1 VIOLATION line printed, 2 machinery error. known_findings.txt is committed and never written at run time.",
    }
    json.dump(manifest, open("/verif/MANIFEST.json", "w"), indent=1)
    try:
        import jsonschema
        jsonschema.validate(manifest, json.load(open("/root/.vp/MANIFEST.schema.json")))
        print("MANIFEST.json valid;", len(checks), "checks")
    except ImportError:
        print("written (jsonschema not available)")

main()

#!/usr/bin/env python3
"""Regenerates /verif/MANIFEST.json from the table below (kept in one place so it stays valid)."""
import json, subprocess, sys

CHECKS = {
 "C02": dict(engine="E1-simworld", category="model_checking", design="§3 C02",
   text="One real searcher among scripted ideal responders: L1 every subset (size 1..5, thorough 1..6) of a 3-bit (4-bit) id-prefix universe x searcher id x info-hash class at the default schedule; L2 every topology x 3 (searcher, info-hash) pairs x every single (thorough double) latency deviation over {1,20,240,480} ms on the search's datagrams; L3 every topology of size <= 3 x contact choice x read-only x port/announce x peer sets x family; structured networks of 30/200(/1000) nodes (uniform, clustered at target, clustered at searcher); a stale-bucket layer (the target's bucket holds 8 questionable entries while nearer buckets are fresh; the search is issued every 0.5 s / 0.1 s across that window). Oracle: announce_peer exactly to the 8 closest by XOR (all if fewer) with that node's token, hash, own id, port/implied_port; stream == multiset of values of all delivered answers. Responder answers padded to exactly 1500 bytes (the receive buffer size) must be taken in like any other.",
   note="Responders answer within 480 ms one-way (premise: within one second). Distance ties (equal ids) make the 8-closest set ambiguous and either choice is accepted.",
   technique="layered exhaustive enumeration of topologies/configurations + deviation-bounded schedule exploration of the real node"),
 "C03": dict(engine="E1-simworld", category="fault_enumeration", design="§3 C03",
   text="One real searcher, 3..5 responders, 1-2 concurrent searches; for every datagram to/from the searcher a fate from {20 ms, 990 ms, 1.6 s, 3.1 s, drop, duplicate} and an adversary injection from a 27-entry menu (9 transaction-id classes x 3 forged bodies, computed from the wire log at that instant); all choice vectors with <= 1 (thorough 2) deviations. Oracle from the wire alone: yielded addresses only from responses whose tid belongs to a still outstanding get_peers of that search; announce_peer only to (id, address) that gave a token, with its latest token, <= 8, none without announce. A configuration with 11 token-giving responders of which some cannot be sent to (at most 8 announces, only to the closest) and duplicate ids with rotating tokens.",
   note="Responses delivered 1490..1510 ms after their query are in a free band (1 ms grid vs. timer order).",
   technique="fault enumeration: deviation-bounded exploration of network fates and adversary injections against the real node"),
 "C04": dict(engine="E1-simworld", category="model_checking", design="§3 C04",
   text="One real node with 0..4 (6) known peers that answer / stay silent / answer errors to get_peers (every behaviour vector for n<=3), chains of 1..6 ever closer nodes, send_to failing or pending once on the k-th send for every k, every choice vector with <= 2 deviations over {1,740,760,990,1600 ms, drop}; timing oracle in virtual ms for termination bound, 3 s silent case, no close with a young unanswered query, no timely answer missed, immediate close with nobody to ask. Chains through contacts that are never admitted to the table, 5/6/8 answering peers (end-game), router-only nodes with API calls at 7 offsets during the search.",
   note="Tolerance +-10 ms for the 1 ms delivery grid. Searches are issued after the first bootstrap attempt (C16 governs earlier ones).",
   technique="stateless deviation-bounded exploration of the real node with a virtual-time oracle"),
 "C11": dict(engine="E1-simworld", category="model_checking", design="§3 C11",
   text="One real node for 1 h (thorough 4 h) of virtual time with 1..3 (5, 6..8) contacts: every partition into always-answering / silent from t in {0,1,14,16,60 min}, builder contacts or hearsay-only, single-contact and well-connected regimes, with/without periodic searches, others stop naming a silent contact after 0/5/10 min, latencies {1,20,200}; load_contacts sampled every 3 s. Oracle: responsive contacts never lost and never questionable > 30 s; silent contacts gone after max(last answer + 20 min, last mention + 5 min). Leaf contacts (answer every query with empty node lists), known by hearsay or as builder contacts, next to a serving node; per-contact latencies.",
   note="One deterministic execution per configuration (loss-free premise). 'Always answers' = answers within the asker's shortest timeout.",
   technique="exhaustive sweep of small configurations of the real node over hours of virtual time"),
 "C12": dict(engine="E1-simworld", category="fault_enumeration", design="§3 C12",
   text="Differential fault enumeration: for every wire event of a base run (bootstrap, idle, search) and each of 16 injections (4 unsolicited query kinds from fresh (id,address); responses with 2/7/9/20-byte ids or never-used action prefixes, from a fresh address and from a known contact) the run is repeated with that injection (thorough: also pairs) and every contacts/state sample (500 ms), three 161-probe table dumps and the search's items are compared with the run without it; hostile node lists in accepted answers (own id, router, duplicates, 50 names): own address/router never listed, named-only nodes never good. Injection menu of 25 entries incl. ids derived from the node's outstanding ids (+1/+12 bytes, cut to 7, top bit/byte flipped), a party that only queries (get_peers then announce_peer with the handed token), a ping claiming the id of a node known by name only, and a router that is also given as a node.",
   note="Determinism of the engine makes the two runs comparable sample by sample (checked: replay divergence is a machinery error).",
   technique="fault enumeration with a differential oracle on the real node"),
 "C01": dict(engine="E1-simworld", category="model_checking", design="§3 C01",
   text="Stateless exploration of full meshes of 2..4 (thorough ..9) real MainlineDht nodes on the in-memory network under virtual time: every configuration of the stated product (family, announce port, id placement, every ordered announcer/searcher pair, two announcers) at the default schedule incl. histories of 10 min .. 30 h and re-announce; every per-link latency matrix over {1,20,480} ms for n<=3 (9+729 x pairs); every choice vector with <= 2 (n=2) / 1 deviations over per-datagram latencies {1,480,990} ms from the announcer's first get_peers on. Oracle: the searcher's stream contains the announcer's IP with the configured/source port up to 24 h - 10 s and none of it after 24 h + 5 s. Announce ports 1, 443, 6881, 65535 and the source port; two announcers of different ages judged per announcer.",
   note="Single-threaded runtime with fixed select! seed; latency alphabet on a 1 ms grid; no loss. Executions in which a get_peers of the announcing/searching lookup is answered after > 1.5 s are the recorded finding C01 lookup-rtt>1.5s.",
   technique="stateless deviation-bounded model checking of the real nodes under a controlled network/scheduler"),
 "C05": dict(engine="E1-simworld", category="model_checking", design="§3 C05",
   text="One real node in 24 configurations; every symbol of a 306-symbol alphabet alone and every sequence of length 2 (thorough 3) over a 23-symbol reduced alphabet (20 k / 300 k executions); per injected datagram the set of datagrams emitted in the same millisecond is compared with a reference reply model (exactly one reply with echoed tid, own id, right shape; zero for non-queries and read-only nodes); every response/error emitted must answer a query. Further layers: stores crowded beyond what fits a datagram (150..500 peers; the cut-down reply must still be sent, for every tid length 0..=32), the announce symbols on a node that idled 5..31 min (thorough 1 s..1 h), a contact echoing the node's own outstanding transaction id in a well-formed query, want lists in every order.",
   note="Well-formed = shapes generated by the scripted clients; background queries of the node to its contacts are ignored.",
   technique="exhaustive enumeration of short input sequences against the real node under virtual time"),
 "C15": dict(engine="E1-simworld", category="model_checking", design="§3 C15",
   text="One real node per run over ~110 builder configurations (0..12/36 contacts x 7 behaviours x read-only, router/node splits incl. overlap, outages up to 20 min / 2 h, flapping) with 2-5 bootstrapped() callers at chosen instants, waiters every 250 ms across re-bootstrap cycles and during outages that follow a successful bootstrap, unresolvable router strings, a contact naming one address under two ids; API liveness sampled every 10 virtual seconds, plus every single deviation {1,480,2600 ms, drop, duplicate} on the bootstrap datagrams of the first 20 s. Cancelled waiters (receiver dropped before completion) between live ones, twin ids, duplicate fates on answers.",
   note="'about 11 minutes' is asserted as 660 s after max(call, first instant from which a contact answers continuously); with routers the deadline is not asserted (the statement restricts it to plain nodes).",
   technique="stateless exploration of the real node over configurations, outage patterns and single deviations"),
 "C16": dict(engine="E1-simworld", category="model_checking", design="§3 C16",
   text="Differential: a fresh node joining a mesh of 2..4 real nodes issues 1-3 searches at offsets {0, 1 ms, after first answer, just before/at/after bootstrap completion} x contact sets x latencies {1,480,990}, searches at 7 offsets around the 5 s re-bootstrap, router-only fresh nodes; each run is compared with the identical run in which the searches are issued right after bootstrapped(); plus <= 1 (thorough 2) deviation {1,480,990 ms, drop} on the fresh node's bootstrap datagrams with the same choice prefix in both runs. Uplink outages of 3 / 12 / 35 / 70 s from the start of the fresh node, searches at 0 / 1 / 29 / 31 s; if neither the early nor the late search ends although the node reports good contacts, that is a violation.",
   note="Sets of distinct peers are compared (multiplicities depend on how many nodes answered).",
   technique="stateless deviation-bounded exploration with a differential oracle"),
 "C17": dict(engine="E1-simworld", category="model_checking", design="§3 C17",
   text="Size monitor on every datagram a real node emits: dedicated single-node runs with k peers on one info-hash (k over 32 values quick, every k in 0..500 thorough) x peer family x node family x table, get_peers from both families x want x tid length {0,8,32} (every length 0..=32 on stores that need the cap), other reply kinds with 32-byte tids; a searching node among responders handing out tokens of 0..1440 bytes (announce_peer echoes them); and the same monitor over the scenario sets of C01, C05, C18. Oracle: <= 1500 bytes and decodable by Message::decode. Transaction ids of 1000..1390 bytes on get_peers / find_node (nothing longer than 1500 bytes may leave the node); a get_peers (id <= 32 bytes) that gets no reply datagram at all is reported as well (the statement presupposes the reply).",
   note="The statement quantifies over transaction ids up to 32 bytes; longer echoed ids are checked for size only (whether they are answered is not asserted).",
   technique="exhaustive parameter sweep of the real node with a universal wire monitor"),
 "C18": dict(engine="E1-simworld", category="model_checking", design="§3 C18",
   text="One real node with 1..3 responsive contacts and no routers (re-bootstrap every ~5 s), with/without hourly outages, latencies {1,20,200} ms, 10 min (quick) / 1 h, 6 h (thorough) of virtual time; refresh rounds and timer-queue length read from hook probes every virtual second; every 60 s window: rounds <= 11 + bootstrap attempts on the wire, queue <= 4 (<= 40 with search traffic); also with a hearsay node towards which every send fails, and with announcing searches every ~3 s while send_to takes 0/40/300 ms. bootstrapped() polled every 200 ms for the whole run (1 and 3 contacts).",
   note="Deterministic single execution per configuration (the property quantifies over run lengths and re-bootstrap counts). Completions are bounded by attempts seen on the wire.",
   technique="exhaustive sweep of run lengths/configurations of the real node under virtual time with probe oracles"),
 "C06": dict(engine="E2-space", category="model_checking", design="§3 C06",
   text="Explicit-state BFS to closure over the real TokenStore (Copy) under a virtual clock: all reachable abstract states (time since rotation x tracked-token age x which secret the token belongs to) for issue/touch/check-in/advance alphabets around the 10/20/30-minute boundaries, v4, v6 and mixed; in every state a copy of the store is probed: a token <= 10 min old must be accepted from its IP, >= 30 min never, other IP never, never-issued never. E1 binding: every sequence of length <= 3 (thorough 4) over 11 client actions / time jumps (get_peers from A/B, announce from A, A' (same IP other port), B with A's token, previous-instance token, 19-byte token, issued token + 1 byte, 9m59s / 10m01s / 30m) against a real serving node: ack vs 203 per the same rules and a refused announce stores nothing. Forged renewals by the same contact (right IP, wrong token) must not renew; refused announces (bogus, foreign-IP, expired token) followed by get_peers.",
   note="Dedup key is the hook snapshot of the implementation (secrets compared by recomputing SHA-1(ip||secret)); ages saturate at the largest constant the code compares with. Secret collisions (2^-32) ignored. ",
   technique="explicit-state model checking of the real object to closure (BFS, hook-snapshot dedup)"),
 "C07": dict(engine="E2-space", category="model_checking", design="§3 C07",
   text="Bounded DFS over the real AnnounceStorage from 7 seeded states (empty, 498/499/500 pairs on one hash, spread, two batches 12 h apart) with all event sequences up to depth 6/5 (quick) 8/7 (thorough) over add/renew/fresh-pair/find/advance{1 s,12 h,24 h-1 s,24 h}; after every transition add()'s return value and find() for all tracked hashes are compared with a reference map (pair -> last successful announce). E1 binding: every sequence of length <= 3 (4) over announces (explicit/implied port, two v4 sources with the same port number, a v6 source, second info-hash), get_peers from v4/v6 and 12 h / 24 h-1 s / 24 h jumps against a real node: reply values must equal the live pairs of the requester's family; plus 498/499/500 pre-stored pairs through the handler (202 beyond capacity, renewal accepted, room again a day later).",
   note="Depth-bounded, not closed. Dedup on the hook snapshot of the queue and lists (ages saturated at 24 h) plus the reference state. Exactness is demanded whenever all live peers of the family fit a 1500-byte reply (C17), subset otherwise.",
   technique="bounded explicit-state exploration of the real object against a reference model"),
 "C08": dict(engine="E2-space", category="model_checking", design="§3 C08",
   text="Bucket level: all 9841 slot-status patterns (every prefix length x {purged, questionable, good}) x every offer (new good/questionable/bad, every slot re-offered good/questionable), complete. Table level: all event sequences to depth 3 (quick) / 4 (thorough) from 17 seeded tables (1..160 buckets, stale, purged, mixed orders) x 2 local ids over offers for 10 members of each prefix class, requests sent/received, own-id and router offers, time steps; shape invariants in every state and the trade oracle (at most one victim, strictly lower standing, never while the bucket has room, rejected only by a full non-splittable bucket of equal-or-better nodes) on every offer.",
   note="Routers are fixed at table creation (as with IP-literal routers). Pre/post predicate oracle: the victim choice is left open. Depth-bounded from seeds.",
   technique="exhaustive pattern enumeration + bounded explicit-state exploration of the real RoutingTable with a pre/post oracle"),
 "C09": dict(engine="E2-space", category="model_checking", design="§3 C09",
   text="For every table state reached by the C08-style exploration (17 seeds x 2 local ids, depth 2/3, plus 160-bucket tables) closest_nodes is enumerated for the local id, single-bit flips, every member id, pseudo-random ids and all-ones: every live node exactly once, no bad node, and every node sharing a longer prefix with the target than the local id within the first 8. E1 binding: real nodes whose tables were filled by traffic (3/9/17 contacts, some going silent), at three instants 161 probes dump the table and 40 targets x 4 want values x {find_node, get_peers} are checked for distinctness, liveness, family, count = min(8, N) and closer-node inclusion. Instants at which every member is questionable (all contacts silent for 15 min), crowded stores whose replies are cut down (node lists must stay complete), and the 161-probe dump is cross-checked against load_contacts.",
   note="Quick tier uses a subset of single-bit flips (all up to bucket count + 1).",
   technique="bounded explicit-state exploration of the real RoutingTable with a complete per-state oracle"),
 "C10": dict(engine="E2-space", category="model_checking", design="§3 C10",
   text="BFS over a real RoutingTable holding one contact (thorough: to closure, 26 M states; quick: depth 16 plus closure on a 450 s grid) and two contacts (bounded depth) under answer / hearsay / query received / query sent / advance{1,29,30,31,899,900,901 s}; in every state load_contacts and closest_nodes are compared with a history specification of BEP5 classification (good only with an answer or a query from a known contact in the last 15 min; answer => good; hearsay-only never good; two unanswered queries while not good => not reported until it answers or is re-admitted). E1 binding: a contact that answered, went silent and turned questionable sends each of the four query kinds (incl. announce_peer with a bad token) at chosen instants to a real serving node: it must be good right after and 10 minutes later, not good 15 min 1 s later, and the four kinds must be classified alike.",
   note="Where the statement leaves a choice (hearsay-only contact that queried) both answers are allowed. A contact lost because another one was offered is an eviction (C08), not a classification error.",
   technique="explicit-state model checking of the real object to closure (BFS, hook-snapshot dedup)"),
 "C13": dict(engine="E3-enum", category="exploration", design="§3 C13",
   text="Complete product of the stated message-shape dimensions (6.3 k messages quick, 50 k thorough): Message::encode equals an independent canonical bencoder byte for byte, decode(encode(m)) == m, every permutation of the keys of each dictionary level and every unknown-key insertion decodes to the same message (1 M variants quick, 16 M thorough); rejection list for missing arguments, id lengths and node-list residues. Corpus includes duplicate values, non-UTF-8 value bytes, IPv4-mapped / -compatible IPv6 contacts and the top-level v key; decoder panics are captured and reported.",
   note="Trusts harness/src/benc.rs (reference encoder written from BEP3/5/32). Queries carrying a superset of the named method's arguments are not asserted either way (the statement is silent).",
   technique="bounded-exhaustive input enumeration against an independent reference encoder"),
 "C14": dict(engine="E3-enum", category="fault_enumeration", design="§3 C14",
   text="Decoder sweep in supervised worker processes (1 GiB address space, 2 MiB decoding stack, counting allocator) in the release and the dev build: every token sequence of <= 5 tokens (dev: 4) over a 27-token bencode alphabet incl. length prefixes up to 2^64, every single structure-aware mutation of every valid message shape, nesting of every depth that fits 1500 bytes in 7 framings; oracle: no death, no panic, single allocation <= 1 MiB, total <= 4 MiB. Node sweep inside the workers: every sequence of <= 2 (thorough 3) of 24 representative datagrams from two addresses into a running serving node (contacts duplicating every reply in half of them); afterwards a ping is answered and get_state / load_contacts / local_addr / search complete. Worker watchdog: 25 s without progress is a hang and is reported with the input; node-sweep inputs with 1380..1400-byte transaction ids, short node lists and twin ids (one address under two ids).",
   note="Inputs are structure-aware families, not all 256^1500 strings. ",
   technique="bounded-exhaustive fault/input enumeration of the real decoder under a process supervisor"),
 "C19": dict(engine="E2-space", category="model_checking", design="§3 C19",
   text="Exhausts the reachable positions of the real id generators: 3x2048+1 activities from a fresh AIDGenerator and from the last two blocks before the 2^40 wrap have pairwise distinct 5-byte prefixes; full 2^24+4096 cycles of MIDGenerators (2 quick, 8 thorough): 8 bytes, constant prefix, first 2^24 ids pairwise distinct; all block-boundary windows. Wire monitor over the scenario sets of C01, C05, C18: every query has an 8-byte id, no id twice to one address, no reuse within an activity except the shared first bootstrap round, searches and table maintenance never share a prefix. The monitor allows a shared id only for the bootstrap's find_node(own id) burst; a node running 2100 searches (more than one block of 2048); blocks at allocation markers 0, 2048, 2^24-2048, 2^24, 2^25, 2^32, 2^40-2048 pairwise disjoint.",
   note="The statement is read as: the first 2^24 ids of an activity are pairwise distinct (windows across the wrap re-shuffle block 0).",
   technique="exhaustive enumeration of generator positions on the real code"),
 "C20": dict(engine="E3-enum", category="exploration", design="§3 C20",
   text="Bounded-exhaustive enumeration of the real InfoHash::from_ip: the complete IPv4 relevant-bit space (2^21 addresses quick, all 2^32 thorough) x all 8 values of the internal 3 random bits, and structured IPv6 families, each draw validated by an independent bitwise CRC32-C BEP42 validator. Exhaustive over IPv4, bounded over IPv6.",
   note="Trusts the harness's own BEP42 validator (self-checked against the five published BEP42 vectors and the CRC32-C check value). IPv6 is bounded to the stated families.",
   technique="bounded-exhaustive input enumeration of the real function against an independent reference"),
}

ALL = ["C%02d" % i for i in range(1, 21)]
PENDING_REASON = "check not built yet in this revision of /verif (construction in progress, see DESIGN.md §7a); no claim is made"

def main():
    hooks = subprocess.run(["git", "-C", "/repo", "log", "--format=%h %s"], capture_output=True, text=True).stdout.splitlines()
    hook_commits = [l.split()[0] for l in hooks if l.split(" ", 1)[1].startswith("verif hook:")]
    checks = []
    for pid in ALL:
        if pid not in CHECKS:
            continue
        c = CHECKS[pid]
        checks.append({
            "property_id": pid,
            "quick_cmd": f"./check {pid} quick",
            "thorough_cmd": f"./check {pid} thorough",
            "evidence_file": f"/verif/evidence/{pid}.json",
            "replay_cmd_template": f"./check {pid} --replay {{path}}",
            "engine": c["engine"],
            "level_claimed": {"category": c["category"], "text": c["text"], "design_ref": c["design"]},
            "level_note": c["note"],
            "technique": c["technique"],
        })
    manifest = {
        "version": 1,
        "setup_cmd": "./check --build",
        "hooks": {
            "guard": "cargo feature `verif` of btdht (Cargo.toml [features] verif)",
            "enable": "the harness crate /verif/harness depends on btdht by path with features=[\"verif\"]; every ./check rebuilds it from /repo's working tree (cargo build --release --offline, RUSTFLAGS=--cfg tokio_unstable for the harness build only)",
            "baseline_off_cmd": "cd /repo && cargo test --workspace --no-fail-fast --offline",
            "source_commits": hook_commits,
            "add_only": True,
        },
        "engines": [
            {"name": "E1-simworld", "path": "/verif/harness/src/sim", "kind_free_text": "stateless deviation-bounded exploration of real MainlineDht nodes over an in-memory SocketTrait network on a paused single-thread tokio runtime", "serves_properties": [p for p in ALL if p in CHECKS and CHECKS[p]["engine"].startswith("E1")]},
            {"name": "E2-space", "path": "/verif/harness/src/space.rs", "kind_free_text": "explicit-state BFS over real TokenStore/AnnounceStorage/RoutingTable/Node/id generators under a thread-local virtual clock, deduplicated on hook snapshots of the implementation state", "serves_properties": [p for p in ALL if p in CHECKS and CHECKS[p]["engine"].startswith("E2")]},
            {"name": "E3-enum", "path": "/verif/harness/src/props", "kind_free_text": "bounded-exhaustive input enumeration of real pure functions against independent reference implementations", "serves_properties": [p for p in ALL if p in CHECKS and CHECKS[p]["engine"].startswith("E3")]},
        ],
        "checks": checks,
        "not_applicable": [{"property_id": p, "reason": PENDING_REASON} for p in ALL if p not in CHECKS],
        "notes": "See DESIGN.md. Exit codes of every check: 0 held (KNOWN-FINDING lines for recorded findings), 1 VIOLATION line printed, 2 machinery error. known_findings.txt is committed and never written at run time.",
    }
    json.dump(manifest, open("/verif/MANIFEST.json", "w"), indent=1)
    try:
        import jsonschema
        jsonschema.validate(manifest, json.load(open("/root/.vp/MANIFEST.schema.json")))
        print("MANIFEST.json valid;", len(checks), "checks")
    except ImportError:
        print("written (jsonschema not available)")

main()

#!/usr/bin/env python3
"""Re-run checks against an already confirmed seeded change: recheck_mutant.py <Cxx-V> <check ids...>"""
import json, subprocess, sys, time
name = sys.argv[1]
checks = sys.argv[2:]
d = f"/verif/seeded/{name}"
meta = json.load(open(f"{d}/meta.json"))
def sh(c, cwd=None):
    p = subprocess.run(c, shell=True, cwd=cwd, capture_output=True, text=True)
    return p.returncode, p.stdout + p.stderr
rc, out = sh(f"git -C /repo apply --check {d}/patch.diff && git -C /repo apply {d}/patch.diff")
if rc != 0:
    print("patch does not apply:", out[-300:]); sys.exit(1)
try:
    for c in checks:
        t0 = time.time()
        rc, out = sh(f"./check {c} quick 2>&1", "/verif")
        viol = [l for l in out.splitlines() if l.startswith("VIOLATION") or l.strip().startswith("violation:")]
        meta.setdefault("checks_run_against_it", {})[c] = {"exit": rc, "seconds": round(time.time() - t0, 1), "lines": viol[:4]}
        print(name, c, "exit", rc, round(time.time() - t0, 1), "s", viol[:1])
finally:
    sh("git -C /repo checkout -- .")
meta["detected_by"] = sorted(c for c, r in meta["checks_run_against_it"].items() if r["exit"] == 1)
meta["repo_head_last_checked_on"] = subprocess.run("git -C /repo rev-parse --short HEAD", shell=True, capture_output=True, text=True).stdout.strip()
json.dump(meta, open(f"{d}/meta.json", "w"), indent=1)

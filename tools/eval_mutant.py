#!/usr/bin/env python3
"""Confirm a seeded change and run checks against it.

usage: eval_mutant.py <agent worktree> <A|B|...> <property id> [check ids to run ...]

1. In a scratch worktree of /repo's HEAD (/tmp/mut/confirm): demo passes without the change; with the
   change the repository suite still passes (64) and the demo fails.
2. The patch is applied to /repo, the named checks (default: the property's own) are run (quick tier),
   /repo is restored.
3. Everything is recorded under /verif/seeded/<property>-<variant>/.
"""
import json, os, re, shutil, subprocess, sys, time

CONFIRM = os.environ.get("CONFIRM_DIR", "/tmp/mut/confirm")  # round 6: the (reset and cleaned) worktree the change was written in, so its build output is reused


def sh(cmd, cwd=None, timeout=3600):
    p = subprocess.run(cmd, shell=True, cwd=cwd, capture_output=True, text=True, timeout=timeout)
    return p.returncode, p.stdout + p.stderr


def suite(cwd):
    rc, out = sh("cargo test --workspace --no-fail-fast --offline 2>&1", cwd)
    passed = sum(int(m) for m in re.findall(r"test result: \w+\. (\d+) passed", out))
    failed = sum(int(m) for m in re.findall(r"test result: \w+\. \d+ passed; (\d+) failed", out))
    return passed, failed, out


def main():
    wt, variant, prop = sys.argv[1], sys.argv[2], sys.argv[3]
    checks = sys.argv[4:] or [prop]
    src = os.path.join(wt, "mutant", variant)
    patch = os.path.join(src, "patch.diff")
    meta_in = {}
    try:
        meta_in = json.load(open(os.path.join(src, "meta.json")))
    except Exception as e:
        meta_in = {"error": f"meta.json unreadable: {e}"}
    head = subprocess.run("git -C /repo rev-parse --short HEAD", shell=True, capture_output=True, text=True).stdout.strip()
    if not os.path.isdir(CONFIRM):
        sh(f"git -C /repo worktree add --detach {CONFIRM} HEAD")
    sh(f"git checkout -q --detach {head} && git reset -q --hard && git clean -qfd -e target -e mutant", CONFIRM)
    log = []
    # demo files
    demo_dir = os.path.join(src, "demo")
    tests = []
    for root, _, files in os.walk(demo_dir):
        for f in files:
            if f.endswith(".rs"):
                rel = os.path.relpath(os.path.join(root, f), demo_dir)
                # keep the directory the author used if it names tests/ or examples/
                if rel.startswith("examples/"):
                    dst = os.path.join(CONFIRM, rel)
                    kind = "example"
                elif os.path.basename(f) == "mod.rs" and os.path.dirname(rel):
                    # support module of a demo (tests/<dir>/mod.rs): copied, not run
                    dst = os.path.join(CONFIRM, "tests", os.path.basename(os.path.dirname(rel)), "mod.rs")
                    os.makedirs(os.path.dirname(dst), exist_ok=True)
                    shutil.copy(os.path.join(root, f), dst)
                    continue
                else:
                    dst = os.path.join(CONFIRM, "tests", os.path.basename(f))
                    kind = "test"
                os.makedirs(os.path.dirname(dst), exist_ok=True)
                shutil.copy(os.path.join(root, f), dst)
                tests.append((kind, os.path.splitext(os.path.basename(f))[0], open(dst).read()))
    howto = ""
    try:
        howto = open(os.path.join(demo_dir, "HOWTO.txt")).read()
    except Exception:
        pass
    feat = "--features verif" if ("verif" in howto and "--features verif" in howto) or any("btdht::verif" in t[2] for t in tests) else ""

    def run_demo():
        ok_all = True
        outs = []
        for kind, name, _ in tests:
            if kind == "test":
                rc, out = sh(f"cargo test --offline {feat} --test {name} 2>&1", CONFIRM, timeout=1200)
            else:
                rc, out = sh(f"cargo run --offline {feat} --example {name} 2>&1", CONFIRM, timeout=1200)
            outs.append(out[-1500:])
            ok_all &= rc == 0
        return ok_all, "\n".join(outs)

    res = {"property": prop, "variant": variant, "repo_head": head, "agent_meta": meta_in}
    if not tests:
        res["confirmed"] = False
        res["why"] = "no demo .rs files found"
        print(json.dumps(res, indent=1))
        return 1
    ok0, out0 = run_demo()
    res["demo_passes_without_change"] = ok0
    rc, out = sh(f"git apply --check {patch} && git apply {patch}", CONFIRM)
    res["patch_applies_to_head"] = rc == 0
    if rc != 0:
        res["confirmed"] = False
        res["why"] = "patch does not apply to current HEAD: " + out[-400:]
        print(json.dumps(res, indent=1))
        return 1
    passed, failed, sout = suite(CONFIRM)
    # the demo test itself is part of --workspace now: count only the baseline 64
    res["suite_with_change"] = {"passed_including_demo": passed, "failed_including_demo": failed}
    # run the suite without the demo to be exact
    for kind, name, _ in tests:
        p = os.path.join(CONFIRM, "tests" if kind == "test" else "examples", name + ".rs")
        os.rename(p, p + ".off")
    passed, failed, sout = suite(CONFIRM)
    res["suite_with_change"] = {"passed": passed, "failed": failed}
    for kind, name, _ in tests:
        p = os.path.join(CONFIRM, "tests" if kind == "test" else "examples", name + ".rs")
        os.rename(p + ".off", p)
    ok1, out1 = run_demo()
    res["demo_fails_with_change"] = not ok1
    res["confirmed"] = bool(ok0 and (not ok1) and passed == 64 and failed == 0)
    sh("git reset -q --hard && git clean -qfd -e target -e mutant", CONFIRM)
    # run the checks against /repo with the patch applied
    res["checks"] = {}
    if res["confirmed"] and not os.environ.get("SKIP_CHECKS"):
        rc, out = sh(f"git -C /repo apply {patch}")
        if rc != 0:
            res["checks_error"] = out[-300:]
        else:
            try:
                for c in checks:
                    t0 = time.time()
                    rc, out = sh(f"./check {c} quick 2>&1", "/verif", timeout=3600)
                    viol = [l for l in out.splitlines() if l.startswith("VIOLATION") or l.strip().startswith("violation:")]
                    res["checks"][c] = {"exit": rc, "seconds": round(time.time() - t0, 1), "lines": viol[:6]}
            finally:
                sh("git -C /repo checkout -- .")
    # record
    dst = f"/verif/seeded/{prop}-{variant}"
    if os.environ.get("SEEDED_ROUND5"):
        # fifth round: A -> I, B -> J
        dst = f"/verif/seeded/{prop}-{chr(ord(variant) + 8)}"
    elif os.environ.get("SEEDED_ROUND4"):
        # fourth round: A -> G, B -> H
        dst = f"/verif/seeded/{prop}-{chr(ord(variant) + 6)}"
    elif os.environ.get("SEEDED_ROUND3"):
        # third round: A -> E, B -> F
        dst = f"/verif/seeded/{prop}-{chr(ord(variant) + 4)}"
    elif os.path.exists(dst) and os.environ.get("SEEDED_ROUND2"):
        # second round: A -> C, B -> D
        dst = f"/verif/seeded/{prop}-{chr(ord(variant) + 2)}"
    if res["confirmed"]:
        shutil.rmtree(dst, ignore_errors=True)
        os.makedirs(dst)
        shutil.copy(patch, os.path.join(dst, "patch.diff"))
        shutil.copytree(demo_dir, os.path.join(dst, "demo"))
        meta = {
            "property": prop,
            "summary": meta_in.get("summary"),
            "needs": meta_in.get("needs"),
            "repo_head_confirmed_on": head,
            "confirmed_by_me": {
                "scratch_worktree": CONFIRM,
                "suite_with_change": res["suite_with_change"],
                "demo_passes_without_change": ok0,
                "demo_fails_with_change": not ok1,
                "demo_command_features": feat,
            },
            "checks_run_against_it": res["checks"],
            "detected_by": [c for c, r in res["checks"].items() if r["exit"] == 1],
        }
        json.dump(meta, open(os.path.join(dst, "meta.json"), "w"), indent=1)
    print(json.dumps({k: v for k, v in res.items() if k != "agent_meta"}, indent=1))
    if not ok0:
        print("--- demo output without change ---\n" + out0[-1200:])
    if ok1:
        print("--- demo output with change (expected failure) ---\n" + out1[-1200:])
    return 0


sys.exit(main())
